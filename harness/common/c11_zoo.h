// C11 — serialization type zoo, seeded generators, equality, presentations and
// the oracles shared by c11_serialize.cpp (gcc asan / plain) and fuzz_c11.cpp
// (clang libFuzzer). Included by exactly one translation unit per harness,
// after common/vf.h.
#pragma once

#include <arena_example.pb.h>
#include <google/protobuf/io/zero_copy_stream_impl_lite.h>

#include <cstring>
#include <list>
#include <memory>
#include <string>
#include <tuple>
#include <type_traits>
#include <unordered_map>
#include <unordered_set>
#include <vector>

#include "babylon/reusable/allocator.h"
#include "babylon/reusable/memory_resource.h"
#include "babylon/reusable/string.h"
#include "babylon/reusable/vector.h"
#include "babylon/serialization.h"

namespace zoo {

using ::babylon::Serialization;
using ::babylon::SerializeTraits;
using ::babylon::SwissAllocator;
using ::babylon::SwissMemoryResource;
using ::babylon::SwissString;
using ::babylon::SwissVector;
using ::babylon::TestMessage;
using ::babylon::ArenaExample;
using ::babylon::TestEnum;

////////////////////////////////////////////////////////////////////////////////
// enums (all with a fixed underlying type: converting an arbitrary wire value
// to them is well defined, so hostile input may be fed to them)
enum class EnumI8 : int8_t { NEG = -128, M1 = -1, ZERO = 0, ONE = 1, MAX = 127 };
enum class EnumU64 : uint64_t { ZERO = 0, BIG = 0xffffffffffffffffULL, MID = 1ULL << 35 };
enum PlainEnum : int { PE_NEG = -5, PE_ZERO = 0, PE_BIG = 1 << 30 };

////////////////////////////////////////////////////////////////////////////////
// aggregates. ZOO_FIELDS lists the members that take part in serialization (in
// the same order as the BABYLON_ macro) so that generation / equality / the
// null-for-empty rule are derived generically.
#define ZOO_FIELDS(...)                                   \
  auto zoo_tie() { return ::std::tie(__VA_ARGS__); }      \
  auto zoo_tie() const { return ::std::tie(__VA_ARGS__); }
#define ZOO_FIELDS_BASE(Base, ...)                                                                 \
  auto zoo_tie() { return ::std::tuple_cat(::std::tie(static_cast<Base&>(*this)), ::std::tie(__VA_ARGS__)); } \
  auto zoo_tie() const {                                                                           \
    return ::std::tuple_cat(::std::tie(static_cast<const Base&>(*this)), ::std::tie(__VA_ARGS__));  \
  }

struct Small {
  int32_t a {0};
  ::std::string s;
  BABYLON_SERIALIZABLE(a, s)
  ZOO_FIELDS(a, s)
};

// every member may have an empty encoding: the whole struct can encode to nothing
struct Hollow {
  ::std::string s;
  ::std::vector<int32_t> v;
  ::std::unique_ptr<::std::string> p;
  BABYLON_SERIALIZABLE((s, 1)(v, 2)(p, 3))
  ZOO_FIELDS(s, v, p)
};

struct AllScalars {
  bool b {false};
  int8_t i8 {0};
  int16_t i16 {0};
  int32_t i32 {0};
  int64_t i64 {0};
  uint8_t u8 {0};
  uint16_t u16 {0};
  uint32_t u32 {0};
  uint64_t u64 {0};
  float f {0};
  double d {0};
  EnumI8 e8 {EnumI8::ZERO};
  EnumU64 e64 {EnumU64::ZERO};
  PlainEnum pe {PE_ZERO};
  ::std::string s;
  // field numbers across the 1/2/3/4/5-byte tag boundaries
  BABYLON_COMPATIBLE((b, 1)(i8, 2)(i16, 15)(i32, 16)(i64, 17)(u8, 2047)(u16, 2048)(u32, 262143)(u64, 262144)(
      f, 33554431)(d, 33554432)(e8, 536870911)(e64, 100)(pe, 101)(s, 102))
  ZOO_FIELDS(b, i8, i16, i32, i64, u8, u16, u32, u64, f, d, e8, e64, pe, s)
};

struct Containers {
  ::std::vector<int32_t> vi32;
  ::std::vector<int64_t> vi64;
  ::std::vector<uint8_t> vu8;
  ::std::vector<float> vf;
  ::std::vector<double> vd;
  ::std::vector<bool> vb;
  ::std::vector<::std::string> vs;
  ::std::vector<EnumI8> ve;
  ::std::vector<::std::vector<int32_t>> vvi;
  ::std::vector<Small> vsm;
  ::std::list<int64_t> li;
  ::std::list<::std::string> ls;
  ::std::unordered_set<int32_t> usi;
  ::std::unordered_set<::std::string> uss;
  ::std::unordered_map<int32_t, ::std::string> umis;
  ::std::unordered_map<::std::string, ::std::vector<double>> umsv;
  BABYLON_SERIALIZABLE(vi32, vi64, vu8, vf, vd, vb, vs, ve, vvi, vsm, li, ls, usi, uss, umis, umsv)
  ZOO_FIELDS(vi32, vi64, vu8, vf, vd, vb, vs, ve, vvi, vsm, li, ls, usi, uss, umis, umsv)
};

// > 10 SIMPLE members: the macro adds a cache of the total size
struct CachedBig {
  ::std::string s0, s1, s2, s3, s4, s5;
  int32_t i0 {0}, i1 {0}, i2 {0};
  uint64_t u0 {0}, u1 {0}, u2 {0};
  double d0 {0};
  BABYLON_SERIALIZABLE((s0, 1)(s1, 2)(s2, 3)(s3, 4)(s4, 5)(s5, 6)(i0, 7)(i1, 8)(i2, 9)(u0, 10)(u1, 11)(u2, 12)(
      d0, 13))
  ZOO_FIELDS(s0, s1, s2, s3, s4, s5, i0, i1, i2, u0, u1, u2, d0)
};
static_assert(SerializeTraits<CachedBig>::SERIALIZED_SIZE_CACHED, "CachedBig is meant to carry a total-size cache");

struct WithBase : public Small {
  int64_t x {0};
  ::std::vector<::std::string> y;
  BABYLON_SERIALIZABLE_WITH_BASE(Small, x, y)
  ZOO_FIELDS_BASE(Small, x, y)
};
struct WithBaseTagged : public CachedBig {
  ::std::string t;
  CachedBig inner;
  ::std::vector<CachedBig> many;
  BABYLON_COMPATIBLE_WITH_BASE((CachedBig, 7), (t, 3)(inner, 900)(many, 2))
  ZOO_FIELDS_BASE(CachedBig, t, inner, many)
};

struct Ptrs {
  ::std::unique_ptr<int32_t> pi;
  ::std::unique_ptr<::std::string> ps;
  ::std::shared_ptr<Small> psm;
  ::std::unique_ptr<Hollow> ph;
  ::std::shared_ptr<::std::vector<int64_t>> pv;
  ::std::unique_ptr<double> pd;
  ::std::vector<::std::unique_ptr<::std::string>> vps;
  ::std::vector<::std::shared_ptr<Hollow>> vph;
  BABYLON_SERIALIZABLE(pi, ps, psm, ph, pv, pd, vps, vph)
  ZOO_FIELDS(pi, ps, psm, ph, pv, pd, vps, vph)
};

struct Arrays {
  int32_t ai[4] {};
  double ad[3] {};
  float af[5] {};
  ::std::string as[2];
  Small asm_[2];
  uint64_t au[1] {};
  BABYLON_SERIALIZABLE(ai, ad, af, as, asm_, au)
  ZOO_FIELDS(ai, ad, af, as, asm_, au)
};

struct L0 {
  int32_t a {0};
  ::std::string s;
  BABYLON_SERIALIZABLE(a, s)
  ZOO_FIELDS(a, s)
};
struct L1 {
  L0 a;
  ::std::vector<L0> v;
  BABYLON_SERIALIZABLE(a, v)
  ZOO_FIELDS(a, v)
};
struct L2 {
  L1 a;
  ::std::unique_ptr<L1> p;
  BABYLON_SERIALIZABLE((a, 1)(p, 2))
  ZOO_FIELDS(a, p)
};
struct L3 {
  L2 a;
  ::std::list<L2> l;
  BABYLON_SERIALIZABLE(a, l)
  ZOO_FIELDS(a, l)
};
struct L4 {
  L3 a;
  ::std::unordered_map<int32_t, L3> m;
  BABYLON_SERIALIZABLE(a, m)
  ZOO_FIELDS(a, m)
};
struct L5 {
  L4 a;
  ::std::vector<L4> v;
  uint8_t tail {0};
  BABYLON_SERIALIZABLE(a, v, tail)
  ZOO_FIELDS(a, v, tail)
};

struct WithMsg {
  TestMessage m;
  ::std::unique_ptr<TestMessage> pm;
  ::std::vector<TestMessage> vm;
  ArenaExample ae;
  int32_t after {0};
  BABYLON_SERIALIZABLE((m, 1)(pm, 2)(vm, 3)(ae, 4)(after, 5))
  ZOO_FIELDS(m, pm, vm, ae, after)
};

// allocator-aware aggregate over babylon's reusable containers
struct SwissElem {
  struct AllocationMetadata {};  // marks the type reusable (ReusableVector element requirement)
  int32_t i {0};
  double d {0};
  BABYLON_COMPATIBLE((i, 1)(d, 2))
  ZOO_FIELDS(i, d)
};
struct SwissAgg {
  using allocator_type = SwissAllocator<>;
  SwissAgg(allocator_type allocator) : s {allocator}, vs {allocator}, vsm {allocator}, vi {allocator}, vd {allocator} {}
  SwissString s;
  SwissVector<SwissString> vs;
  SwissVector<SwissElem> vsm;
  SwissVector<int32_t> vi;
  SwissVector<double> vd;
  BABYLON_COMPATIBLE((s, 1)(vs, 2)(vsm, 3)(vi, 4)(vd, 5))
  ZOO_FIELDS(s, vs, vsm, vi, vd)
};

////////////////////////////////////////////////////////////////////////////////
// protobuf twin of babylon::TestMessage (test/proto/arena_example.proto): the
// comments of that file are the documented compatibility table.
//   <->  both directions,  <-  babylon -> protobuf only,  -  none
struct TwinSub {
  bool b {false};
  int8_t i8 {0};
  int16_t i16 {0};
  int32_t i32 {0};
  int64_t i64 {0};
  uint8_t u8 {0};
  uint16_t u16 {0};
  uint32_t u32 {0};
  uint64_t u64 {0};
  float f {0};
  double d {0};
  int e {int(::babylon::E1)};
  ::std::string s;
  ::std::string by;
  ::std::vector<bool> rpb;
  ::std::vector<int32_t> rpi32;
  ::std::vector<double> rpd;
  BABYLON_COMPATIBLE((b, 1)(i8, 2)(i16, 3)(i32, 4)(i64, 5)(u8, 6)(u16, 7)(u32, 8)(u64, 9)(f, 16)(d, 17)(e, 18)(
      s, 19)(by, 20)(rpb, 44)(rpi32, 47)(rpd, 60))
  ZOO_FIELDS(b, i8, i16, i32, i64, u8, u16, u32, u64, f, d, e, s, by, rpb, rpi32, rpd)
};

struct Twin {
  // sentinels, not zeros: "absent fields keep their defaults" must be visible
  bool b {true};
  int8_t i8 {-7};
  int16_t i16 {-777};
  int32_t i32 {-77777};
  int64_t i64 {-7777777777LL};
  uint8_t u8 {77};
  uint16_t u16 {7777};
  uint32_t u32 {77777777};
  uint64_t u64 {7777777777777ULL};
  float f {7.5f};
  double d {-7.25};
  TestEnum e {::babylon::E2};
  ::std::string s;   // no sentinel: an empty string member is not written at all (documented rule), so
  ::std::string by;  // a non-empty default could not round-trip through babylon itself
  TwinSub m;
  ::std::unique_ptr<TwinSub> pm;
  // <- (babylon -> protobuf only)
  ::std::vector<bool> rb;
  ::std::vector<int8_t> ri8;
  ::std::vector<int16_t> ri16;
  ::std::vector<int32_t> ri32;
  ::std::vector<int64_t> ri64;
  ::std::vector<uint8_t> ru8;
  ::std::vector<uint16_t> ru16;
  ::std::vector<uint32_t> ru32;
  ::std::vector<uint64_t> ru64;
  ::std::vector<float> rf;
  ::std::vector<double> rd;
  ::std::vector<TestEnum> re;
  // <->
  ::std::vector<bool> rpb;
  ::std::vector<int8_t> rpi8;
  ::std::vector<int16_t> rpi16;
  ::std::vector<int32_t> rpi32;
  ::std::vector<int64_t> rpi64;
  ::std::vector<uint8_t> rpu8;
  ::std::vector<uint16_t> rpu16;
  ::std::vector<uint32_t> rpu32;
  ::std::vector<uint64_t> rpu64;
  ::std::vector<float> rpf;
  ::std::vector<double> rpd;
  ::std::vector<int> rpe;
  BABYLON_COMPATIBLE((b, 1)(i8, 2)(i16, 3)(i32, 4)(i64, 5)(u8, 6)(u16, 7)(u32, 8)(u64, 9)(f, 16)(d, 17)(e, 18)(
      s, 19)(by, 20)(m, 21)(pm, 22)(rb, 23)(ri8, 24)(ri16, 25)(ri32, 26)(ri64, 27)(ru8, 28)(ru16, 29)(ru32, 30)(
      ru64, 31)(rf, 38)(rd, 39)(re, 40)(rpb, 44)(rpi8, 45)(rpi16, 46)(rpi32, 47)(rpi64, 48)(rpu8, 49)(rpu16, 50)(
      rpu32, 51)(rpu64, 52)(rpf, 59)(rpd, 60)(rpe, 61))
  ZOO_FIELDS(b, i8, i16, i32, i64, u8, u16, u32, u64, f, d, e, s, by, m, pm, rb, ri8, ri16, ri32, ri64, ru8, ru16,
             ru32, ru64, rf, rd, re, rpb, rpi8, rpi16, rpi32, rpi64, rpu8, rpu16, rpu32, rpu64, rpf, rpd, rpe)
};

// An older reader of Twin's bytes: knows only a few of the fields (same numbers);
// everything else must be skipped as unknown, whatever its wire type.
struct TwinSubOld {
  int64_t i64 {0};
  ::std::string by;
  BABYLON_COMPATIBLE((i64, 5)(by, 20))
  ZOO_FIELDS(i64, by)
};
struct TwinOld {
  int32_t i32 {-1};
  uint64_t u64 {1};
  ::std::string s {"old"};
  TwinSubOld m;
  ::std::vector<int32_t> rpi32;
  ::std::vector<double> rpd;
  BABYLON_COMPATIBLE((rpd, 60)(i32, 4)(s, 19)(u64, 9)(rpi32, 47)(m, 21))
  ZOO_FIELDS(rpd, i32, s, u64, rpi32, m)
};

////////////////////////////////////////////////////////////////////////////////
// type classification helpers
template <typename T>
concept Tied = requires(T& t) { t.zoo_tie(); };
template <typename T>
concept PbMessage = ::std::is_base_of_v<::google::protobuf::MessageLite, T>;
template <typename T>
struct is_smart : ::std::false_type {};
template <typename T>
struct is_smart<::std::unique_ptr<T>> : ::std::true_type {};
template <typename T>
struct is_smart<::std::shared_ptr<T>> : ::std::true_type {};
template <typename T>
struct is_seq : ::std::false_type {};
template <typename T, typename A>
struct is_seq<::std::vector<T, A>> : ::std::true_type {};
template <typename T, typename A>
struct is_seq<::std::list<T, A>> : ::std::true_type {};
template <typename T>
struct is_swissvec : ::std::false_type {};
template <typename T>
struct is_swissvec<SwissVector<T>> : ::std::true_type {};
template <typename T>
struct is_uset : ::std::false_type {};
template <typename T>
struct is_uset<::std::unordered_set<T>> : ::std::true_type {};
template <typename T>
struct is_umap : ::std::false_type {};
template <typename K, typename V>
struct is_umap<::std::unordered_map<K, V>> : ::std::true_type {};
template <typename T>
concept Stringy = ::std::is_same_v<T, ::std::string> || ::std::is_same_v<T, SwissString>;

////////////////////////////////////////////////////////////////////////////////
// generator
struct Gen {
  vf::Rng r;
  long budget;      // remaining element budget of the value under construction
  bool compat;      // restrict to what both protobuf and babylon represent (Twin values)
  // set after a death outside any parse was observed for the type (see run_slice): empty
  // vector<float|double> are then generated with one element
  bool no_empty_fp_vectors = false;
  explicit Gen(uint64_t seed, long b = 160, bool c = false) : r(seed), budget(b), compat(c) {}
  size_t len(bool cheap_elements) {
    uint64_t k = r.below(100);
    size_t n;
    if (k < 22) n = 0;
    else if (k < 60) n = size_t(r.range(1, 3));
    else if (k < 85) n = size_t(r.range(4, 20));
    else if (k < 94) n = size_t(r.range(126, 130));            // 1-byte / 2-byte length prefix boundary
    else if (k < 98) n = size_t(r.range(254, 258));
    else n = cheap_elements ? size_t(r.range(16382, 16386)) : size_t(r.range(30, 60));  // 2/3-byte boundary
    if (cheap_elements && n > 1000 && budget < 300) n = size_t(r.range(126, 130));   // one huge run per value at most
    if (!cheap_elements && long(n) > budget) n = size_t(budget > 0 ? budget : 0);
    if (cheap_elements && long(n / 64) > budget) n = size_t(budget > 0 ? budget : 0);
    budget -= long(cheap_elements ? n / 64 + 1 : n + 1);
    return n;
  }
};

template <typename T>
void gen(Gen& g, T& v);

template <typename T>
T gen_integral(Gen& g) {
  using U = ::std::make_unsigned_t<T>;
  uint64_t k = g.r.below(16);
  U u;
  switch (k) {
    case 0: u = 0; break;
    case 1: u = 1; break;
    case 2: u = U(~U(0)); break;                               // -1 / max unsigned
    case 3: u = U(U(1) << (sizeof(T) * 8 - 1)); break;         // min signed
    case 4: u = U(U(~U(0)) >> 1); break;                       // max signed
    case 5: case 6: case 7: {                                   // 2^k, 2^k +- 1 (varint width boundaries)
      unsigned bit = unsigned(g.r.below(sizeof(T) * 8));
      u = U(U(1) << bit);
      uint64_t d = g.r.below(3);
      u = U(u + (d == 0 ? U(0) : d == 1 ? U(1) : U(~U(0))));
      break;
    }
    case 8: u = U(g.r.below(128)); break;
    default: u = U(g.r.next()); break;
  }
  T out;
  memcpy(&out, &u, sizeof out);
  return out;
}

inline void gen_bytes(Gen& g, ::std::string& s, size_t n) {
  s.resize(n);
  uint64_t style = g.r.below(4);
  for (size_t i = 0; i < n; ++i) {
    if (g.compat && style != 3) s[i] = char('a' + g.r.below(26));  // protobuf `string` wants UTF-8
    else if (style == 0) s[i] = char(g.r.next());
    else if (style == 1) s[i] = char(g.r.pick<int>({0, 0xff, 0x80, 0x7f, 0x0a, 'x'}));
    else s[i] = char(' ' + g.r.below(95));
  }
}

template <typename T>
void gen_elems_into_vector_like(Gen& g, T& v, size_t n) {
  v.clear();
  for (size_t i = 0; i < n; ++i) {
    v.emplace_back();
    gen(g, v.back());
  }
}

template <typename T, size_t N>
void gen(Gen& g, T (&v)[N]) {
  for (size_t i = 0; i < N; ++i) gen(g, v[i]);
}

inline void gen_test_message(Gen& g, TestMessage& m, int depth);
inline void gen_arena_example(Gen& g, ArenaExample& m, int depth);

template <typename T>
void gen(Gen& g, T& v) {
  if constexpr (::std::is_same_v<T, bool>) {
    v = g.r.chance(1, 2);
  } else if constexpr (::std::is_enum_v<T>) {
    if constexpr (::std::is_same_v<T, TestEnum>) v = g.r.chance(1, 2) ? ::babylon::E1 : ::babylon::E2;
    else if constexpr (::std::is_same_v<T, EnumI8>)
      v = g.r.pick<EnumI8>({EnumI8::NEG, EnumI8::M1, EnumI8::ZERO, EnumI8::ONE, EnumI8::MAX});
    else if constexpr (::std::is_same_v<T, EnumU64>) v = g.r.pick<EnumU64>({EnumU64::ZERO, EnumU64::BIG, EnumU64::MID});
    else v = g.r.pick<T>({PE_NEG, PE_ZERO, PE_BIG});
  } else if constexpr (::std::is_integral_v<T>) {
    v = gen_integral<T>(g);
  } else if constexpr (::std::is_same_v<T, float>) {
    uint32_t bits = g.r.chance(1, 4) ? g.r.pick<uint32_t>({0u, 0x80000000u, 0x7f800000u, 0xff800000u, 0x7fc00001u,
                                                          0x7f800001u, 0xffffffffu, 1u, 0x3f800000u})
                                     : uint32_t(g.r.next());
    memcpy(&v, &bits, 4);
  } else if constexpr (::std::is_same_v<T, double>) {
    uint64_t bits = g.r.chance(1, 4)
                        ? g.r.pick<uint64_t>({0ull, 0x8000000000000000ull, 0x7ff0000000000000ull, 0xfff0000000000000ull,
                                              0x7ff8000000000001ull, 0x7ff0000000000001ull, ~0ull, 1ull})
                        : g.r.next();
    memcpy(&v, &bits, 8);
  } else if constexpr (::std::is_same_v<T, ::std::string>) {
    gen_bytes(g, v, g.len(true));
  } else if constexpr (::std::is_same_v<T, SwissString>) {
    ::std::string tmp;
    gen_bytes(g, tmp, g.len(true));
    v.assign(tmp.data(), tmp.size());
  } else if constexpr (::std::is_same_v<T, ::std::vector<bool>>) {
    size_t n = g.len(true);
    v.clear();
    for (size_t i = 0; i < n; ++i) v.push_back(g.r.chance(1, 2));
  } else if constexpr (is_seq<T>::value || is_swissvec<T>::value) {
    using E = typename T::value_type;
    constexpr bool cheap = ::std::is_arithmetic_v<E> || ::std::is_enum_v<E>;
    size_t n = g.len(cheap);
    if (n == 0 && g.no_empty_fp_vectors && ::std::is_floating_point_v<E>) n = 1;
    gen_elems_into_vector_like(g, v, n);
  } else if constexpr (is_uset<T>::value) {
    size_t n = g.len(false);
    v.clear();
    for (size_t i = 0; i < n; ++i) {
      typename T::value_type e;
      gen(g, e);
      v.emplace(::std::move(e));
    }
  } else if constexpr (is_umap<T>::value) {
    size_t n = g.len(false);
    v.clear();
    for (size_t i = 0; i < n; ++i) {
      typename T::key_type k;
      typename T::mapped_type m;
      gen(g, k);
      gen(g, m);
      v.emplace(::std::move(k), ::std::move(m));
    }
  } else if constexpr (is_smart<T>::value) {
    using E = ::std::remove_const_t<typename T::element_type>;
    if (g.r.chance(1, 3)) {
      v.reset();
    } else {
      v.reset(new E {});
      gen(g, *v);
    }
  } else if constexpr (::std::is_same_v<T, TestMessage>) {
    gen_test_message(g, v, 0);
  } else if constexpr (::std::is_same_v<T, ArenaExample>) {
    gen_arena_example(g, v, 0);
  } else if constexpr (Tied<T>) {
    ::std::apply([&](auto&... m) { (gen(g, m), ...); }, v.zoo_tie());
  } else {
    static_assert(sizeof(T) == 0, "no generator for this type");
  }
}

inline void gen_arena_example(Gen& g, ArenaExample& m, int depth) {
  m.Clear();
  if (g.r.chance(1, 2)) m.set_p(gen_integral<uint64_t>(g));
  if (g.r.chance(1, 2)) { ::std::string s; gen_bytes(g, s, g.len(true)); m.set_s(s); }
  if (depth < 3 && g.r.chance(1, 3)) gen_arena_example(g, *m.mutable_m(), depth + 1);
  for (size_t i = 0, n = g.len(true) % 9; i < n; ++i) m.add_rp(gen_integral<uint64_t>(g));
  for (size_t i = 0, n = g.len(false) % 5; i < n; ++i) { ::std::string s; gen_bytes(g, s, g.len(true)); m.add_rs(s); }
  if (depth < 2) for (size_t i = 0, n = g.len(false) % 3; i < n; ++i) gen_arena_example(g, *m.add_rm(), depth + 1);
  if (g.r.chance(1, 2)) m.set_e(g.r.chance(1, 2) ? ArenaExample::ENUM1 : ArenaExample::ENUM2);
}

// Only what protobuf itself round-trips (proto2 closed enum: valid values only).
// `compat_only`: fill only the kinds documented "<->" (values in the range of the
// narrower C++ type) — the "-" kinds are added separately as unknown-to-babylon noise.
inline void gen_test_message_leaf(Gen& g, TestMessage& m, bool with_foreign_kinds, unsigned unset_per_16 = 4) {
  auto on = [&] { return g.r.below(16) >= unset_per_16; };
  if (on()) m.set_b(g.r.chance(1, 2));
  if (on()) m.set_i8(gen_integral<int8_t>(g));
  if (on()) m.set_i16(gen_integral<int16_t>(g));
  if (on()) m.set_i32(gen_integral<int32_t>(g));
  if (on()) m.set_i64(gen_integral<int64_t>(g));
  if (on()) m.set_u8(gen_integral<uint8_t>(g));
  if (on()) m.set_u16(gen_integral<uint16_t>(g));
  if (on()) m.set_u32(gen_integral<uint32_t>(g));
  if (on()) m.set_u64(gen_integral<uint64_t>(g));
  if (on()) { float f; gen(g, f); m.set_f(f); }
  if (on()) { double d; gen(g, d); m.set_d(d); }
  if (on()) m.set_e(g.r.chance(1, 2) ? ::babylon::E1 : ::babylon::E2);
  bool saved = g.compat;
  g.compat = true;
  if (on()) { ::std::string s; gen_bytes(g, s, g.len(true)); m.set_s(s); }
  g.compat = saved;
  if (on()) { ::std::string s; gen_bytes(g, s, g.len(true)); m.set_by(s); }
  for (size_t i = 0, n = g.len(true) % 40; i < n; ++i) m.add_rpb(g.r.chance(1, 2));
  for (size_t i = 0, n = g.len(true) % 40; i < n; ++i) m.add_rpi8(gen_integral<int8_t>(g));
  for (size_t i = 0, n = g.len(true) % 40; i < n; ++i) m.add_rpi16(gen_integral<int16_t>(g));
  for (size_t i = 0, n = g.len(true) % 40; i < n; ++i) m.add_rpi32(gen_integral<int32_t>(g));
  for (size_t i = 0, n = g.len(true) % 40; i < n; ++i) m.add_rpi64(gen_integral<int64_t>(g));
  for (size_t i = 0, n = g.len(true) % 40; i < n; ++i) m.add_rpu8(gen_integral<uint8_t>(g));
  for (size_t i = 0, n = g.len(true) % 40; i < n; ++i) m.add_rpu16(gen_integral<uint16_t>(g));
  for (size_t i = 0, n = g.len(true) % 40; i < n; ++i) m.add_rpu32(gen_integral<uint32_t>(g));
  for (size_t i = 0, n = g.len(true) % 40; i < n; ++i) m.add_rpu64(gen_integral<uint64_t>(g));
  for (size_t i = 0, n = g.len(true) % 40; i < n; ++i) { float f; gen(g, f); m.add_rpf(f); }
  for (size_t i = 0, n = g.len(true) % 40; i < n; ++i) { double d; gen(g, d); m.add_rpd(d); }
  for (size_t i = 0, n = g.len(true) % 40; i < n; ++i) m.add_rpe(g.r.chance(1, 2) ? ::babylon::E1 : ::babylon::E2);
  if (with_foreign_kinds) {
    if (on()) m.set_s32(gen_integral<int32_t>(g));
    if (on()) m.set_s64(gen_integral<int64_t>(g));
    if (on()) m.set_f32(gen_integral<uint32_t>(g));
    if (on()) m.set_f64(gen_integral<uint64_t>(g));
    if (on()) m.set_sf32(gen_integral<int32_t>(g));
    if (on()) m.set_sf64(gen_integral<int64_t>(g));
    for (size_t i = 0, n = g.len(true) % 6; i < n; ++i) m.add_rs32(gen_integral<int32_t>(g));
    for (size_t i = 0, n = g.len(true) % 6; i < n; ++i) m.add_rs64(gen_integral<int64_t>(g));
    for (size_t i = 0, n = g.len(true) % 6; i < n; ++i) m.add_rf32(gen_integral<uint32_t>(g));
    for (size_t i = 0, n = g.len(true) % 6; i < n; ++i) m.add_rf64(gen_integral<uint64_t>(g));
    for (size_t i = 0, n = g.len(true) % 6; i < n; ++i) m.add_rsf32(gen_integral<int32_t>(g));
    for (size_t i = 0, n = g.len(true) % 6; i < n; ++i) m.add_rsf64(gen_integral<int64_t>(g));
    for (size_t i = 0, n = g.len(true) % 6; i < n; ++i) { ::std::string s; gen_bytes(g, s, g.len(true) % 300); m.add_rby(s); }
    for (size_t i = 0, n = g.len(true) % 6; i < n; ++i) m.add_rps32(gen_integral<int32_t>(g));
    for (size_t i = 0, n = g.len(true) % 6; i < n; ++i) m.add_rps64(gen_integral<int64_t>(g));
    for (size_t i = 0, n = g.len(true) % 6; i < n; ++i) m.add_rpf32(gen_integral<uint32_t>(g));
    for (size_t i = 0, n = g.len(true) % 6; i < n; ++i) m.add_rpf64(gen_integral<uint64_t>(g));
    for (size_t i = 0, n = g.len(true) % 6; i < n; ++i) m.add_rpsf32(gen_integral<int32_t>(g));
    for (size_t i = 0, n = g.len(true) % 6; i < n; ++i) m.add_rpsf64(gen_integral<int64_t>(g));
  }
}
inline void gen_test_message(Gen& g, TestMessage& m, int depth) {
  m.Clear();
  gen_test_message_leaf(g, m, true);
  if (depth < 4 && g.r.chance(1, 3)) gen_test_message(g, *m.mutable_m(), depth + 1);
  if (depth < 2 && g.r.chance(1, 4)) gen_test_message(g, *m.mutable_pm(), depth + 1);
  if (depth < 2) for (size_t i = 0, n = g.len(false) % 3; i < n; ++i) gen_test_message(g, *m.add_rm(), depth + 1);
}

////////////////////////////////////////////////////////////////////////////////
// does the value encode to zero bytes? (own predicate, not babylon's size function)
template <typename T>
bool enc_empty(const T& v);
template <typename T, size_t N>
bool enc_empty(const T (&)[N]) {
  return N == 0;
}
template <typename T>
bool enc_empty(const T& v) {
  if constexpr (::std::is_arithmetic_v<T> || ::std::is_enum_v<T>) {
    return false;
  } else if constexpr (Stringy<T> || ::std::is_same_v<T, ::std::vector<bool>> || is_seq<T>::value ||
                       is_swissvec<T>::value || is_uset<T>::value || is_umap<T>::value) {
    return v.empty();
  } else if constexpr (is_smart<T>::value) {
    return !v || enc_empty(*v);
  } else if constexpr (PbMessage<T>) {
    return v.ByteSizeLong() == 0;
  } else {
    return ::std::apply([&](const auto&... m) { return (enc_empty(m) && ...); }, v.zoo_tie());
  }
}

// expected value after a round trip: a smart pointer whose pointee encodes to
// nothing reads back as null (stated by the property); everything else is identity.
template <typename T>
void norm(T& v);
template <typename T, size_t N>
void norm(T (&v)[N]) {
  for (size_t i = 0; i < N; ++i) norm(v[i]);
}
template <typename T>
void norm(T& v) {
  if constexpr (is_smart<T>::value) {
    if (v && enc_empty(*v)) v.reset();
    else if (v) norm(const_cast<::std::remove_const_t<typename T::element_type>&>(*v));
  } else if constexpr (is_seq<T>::value || is_swissvec<T>::value) {
    if constexpr (!::std::is_same_v<T, ::std::vector<bool>>)
      for (auto& e : v) norm(e);
  } else if constexpr (is_umap<T>::value) {
    for (auto& kv : v) norm(kv.second);
  } else if constexpr (Tied<T>) {
    ::std::apply([&](auto&... m) { (norm(m), ...); }, v.zoo_tie());
  }
}

////////////////////////////////////////////////////////////////////////////////
// equality (floats bitwise, protobuf by deterministic bytes, null == null)
template <typename T>
bool eq(const T& a, const T& b);
template <typename T, size_t N>
bool eq(const T (&a)[N], const T (&b)[N]) {
  for (size_t i = 0; i < N; ++i)
    if (!eq(a[i], b[i])) return false;
  return true;
}
template <typename T>
bool eq(const T& a, const T& b) {
  if constexpr (::std::is_floating_point_v<T>) {
    return memcmp(&a, &b, sizeof a) == 0;
  } else if constexpr (::std::is_arithmetic_v<T> || ::std::is_enum_v<T>) {
    return a == b;
  } else if constexpr (Stringy<T>) {
    return a.size() == b.size() && memcmp(a.data(), b.data(), a.size()) == 0;
  } else if constexpr (::std::is_same_v<T, ::std::vector<bool>>) {
    return a == b;
  } else if constexpr (is_seq<T>::value || is_swissvec<T>::value) {
    if (a.size() != b.size()) return false;
    auto ia = a.begin();
    auto ib = b.begin();
    for (; ia != a.end(); ++ia, ++ib)
      if (!eq(*ia, *ib)) return false;
    return true;
  } else if constexpr (is_uset<T>::value) {
    return a == b;
  } else if constexpr (is_umap<T>::value) {
    if (a.size() != b.size()) return false;
    for (const auto& kv : a) {
      auto it = b.find(kv.first);
      if (it == b.end() || !eq(kv.second, it->second)) return false;
    }
    return true;
  } else if constexpr (is_smart<T>::value) {
    if (!a || !b) return !a && !b;
    return eq(*a, *b);
  } else if constexpr (PbMessage<T>) {
    ::std::string sa, sb;
    a.SerializeToString(&sa);
    b.SerializeToString(&sb);
    return sa == sb;
  } else {
    return ::std::apply(
        [&](const auto&... ma) {
          return ::std::apply([&](const auto&... mb) { return (eq(ma, mb) && ...); }, b.zoo_tie());
        },
        a.zoo_tie());
  }
}

////////////////////////////////////////////////////////////////////////////////
// holders: how a fresh object of a root type is obtained
template <typename T>
struct Holder {
  T v {};
  T& ref() { return v; }
};
template <>
struct Holder<SwissAgg> {
  SwissMemoryResource resource;
  SwissAgg* p;
  Holder() : p(SwissAllocator<>(resource).create_object<SwissAgg>()) {}
  SwissAgg& ref() { return *p; }
};

////////////////////////////////////////////////////////////////////////////////
// presentations of the bytes to the parser
// bit 8 of a slice's skip mask: generator restriction learnt from a death outside any parse
constexpr unsigned SKIP_GEN_EMPTY_FP_VECTORS = 1u << 8;
enum PresKind { P_ARRAY = 0, P_STRING = 1, P_STREAM_LIMIT = 2, P_STREAM_NOLIMIT = 3, P_KINDS = 4 };
struct Pres {
  PresKind kind;
  int block;
};
inline const char* pres_class(PresKind k) {
  switch (k) {
    case P_ARRAY: return "array";
    case P_STRING: return "string";
    case P_STREAM_LIMIT: return "stream-limit";
    default: return "stream-nolimit";
  }
}
inline const ::std::vector<Pres>& presentations() {
  static const ::std::vector<Pres> all = [] {
    ::std::vector<Pres> p {{P_ARRAY, 0}, {P_STRING, 0}};
    for (int b : {1, 2, 3, 4, 5, 6, 7, 4096}) p.push_back({P_STREAM_LIMIT, b});
    for (int b : {1, 2, 3, 4, 5, 6, 7, 4096}) p.push_back({P_STREAM_NOLIMIT, b});
    return p;
  }();
  return all;
}

struct ParseOutcome {
  bool ok = false;
  bool consumed_to_limit = true;  // stream-limit only: the parser stopped exactly at the limit
};

// The input is copied into a heap block of exactly the presented size so that
// ASan sees any read past it.
template <typename T>
ParseOutcome parse_with(const Pres& p, const ::std::string& bytes, T& out, uint64_t salt) {
  ParseOutcome o;
  using ::google::protobuf::io::ArrayInputStream;
  using ::google::protobuf::io::CodedInputStream;
  size_t n = bytes.size();
  if (p.kind == P_STRING) {
    ::std::string copy(bytes.data(), n);
    o.ok = Serialization::parse_from_string(copy, out);
    return o;
  }
  size_t trailer = p.kind == P_STREAM_LIMIT ? size_t(vf::mix(salt, n) % 10) : 0;
  ::std::unique_ptr<char[]> buf(new char[n + trailer]);
  if (n) memcpy(buf.get(), bytes.data(), n);
  for (size_t i = 0; i < trailer; ++i) buf[n + i] = char(vf::mix(salt, i, 77));  // the next frame's bytes
  if (p.kind == P_ARRAY) {
    o.ok = Serialization::parse_from_array(buf.get(), n, out);
    return o;
  }
  ArrayInputStream ais(buf.get(), int(n + trailer), p.block);
  CodedInputStream cis(&ais);
  if (p.kind == P_STREAM_LIMIT) {
    auto lim = cis.PushLimit(int(n));
    o.ok = Serialization::parse_from_coded_stream(cis, out);
    o.consumed_to_limit = cis.BytesUntilLimit() == 0;
    cis.PopLimit(lim);
  } else {
    o.ok = Serialization::parse_from_coded_stream(cis, out);
  }
  return o;
}

inline ::std::string hex(const ::std::string& s, size_t max = 600) {
  static const char* d = "0123456789abcdef";
  ::std::string o;
  for (size_t i = 0; i < s.size() && i < max; ++i) {
    o += d[(unsigned char)s[i] >> 4];
    o += d[(unsigned char)s[i] & 15];
  }
  if (s.size() > max) o += vf::fmt("...(+%zu bytes)", s.size() - max);
  return o;
}

////////////////////////////////////////////////////////////////////////////////
// result sink. In a forked child the results are queued and shipped to the
// parent; in-process they go straight to vf.
struct Sink {
  virtual void violation(const ::std::string& key, const ::std::string& msg, const ::std::string& detail) = 0;
  virtual void evaluated(uint64_t fp, bool nontrivial) = 0;
  virtual void sample(const ::std::string& json) = 0;
  virtual ~Sink() {}
};
struct DirectSink : Sink {
  void violation(const ::std::string& k, const ::std::string& m, const ::std::string& d) override { vf::violation(k, m, d); }
  void evaluated(uint64_t fp, bool nt) override { vf::evaluated(fp, nt); }
  void sample(const ::std::string& j) override { vf::sample(j); }
};
inline Sink*& sink() {
  static DirectSink direct;
  static Sink* s = &direct;
  return s;
}

// what the process is doing right now (for crash attribution); lives in shared
// memory when the work runs in a forked child
struct Blackbox {
  char phase[32];
  char type[48];
  char pres[24];
  int block;
  uint32_t input_len;
  unsigned char input[4096];
  char what[256];
};
inline Blackbox*& blackbox() {
  static Blackbox local;
  static Blackbox* b = &local;
  return b;
}
inline void bb_set(const char* phase, const char* type, const Pres* p, const ::std::string& input) {
  Blackbox* b = blackbox();
  snprintf(b->phase, sizeof b->phase, "%s", phase);
  snprintf(b->type, sizeof b->type, "%s", type);
  snprintf(b->pres, sizeof b->pres, "%s", p ? pres_class(p->kind) : "-");
  b->block = p ? p->block : 0;
  b->input_len = uint32_t(input.size());
  memcpy(b->input, input.data(), ::std::min(input.size(), sizeof b->input));
}

////////////////////////////////////////////////////////////////////////////////
// serialization through the three output paths; all must agree and match the
// predicted size
template <typename T>
bool serialize_all_ways(const char* type, const T& v, ::std::string& bytes, uint64_t salt) {
  using ::google::protobuf::io::ArrayOutputStream;
  using ::google::protobuf::io::CodedOutputStream;
  if (!Serialization::serialize_to_string(v, bytes)) {
    sink()->violation(::std::string("c11:serialize-failed:") + type, "serialize_to_string returned false", "");
    return false;
  }
  size_t predicted = Serialization::calculate_serialized_size(v);
  if (predicted != bytes.size()) {
    sink()->violation(::std::string("c11:size-mismatch:") + type,
                      vf::fmt("calculate_serialized_size = %zu but serialize_to_string produced %zu bytes", predicted,
                              bytes.size()),
                      "bytes=" + hex(bytes));
    return false;
  }
  // exact-size array (needs the size pass first: with_cached_size contract)
  {
    ::std::unique_ptr<char[]> buf(new char[predicted]);
    bool ok = Serialization::serialize_to_array_with_cached_size(v, buf.get(), predicted);
    if (!ok || memcmp(buf.get(), bytes.data(), predicted) != 0) {
      sink()->violation(::std::string("c11:serialize-variants-differ:") + type,
                        vf::fmt("serialize_to_array_with_cached_size into an exact-size buffer %s",
                                ok ? "produced different bytes than serialize_to_string" : "failed"),
                        "string=" + hex(bytes) + "\narray =" + hex(::std::string(buf.get(), predicted)));
      return false;
    }
  }
  // chunked output stream
  {
    int block = int(1 + vf::mix(salt, 5) % 9);
    ::std::string out(predicted + 16, '\xcd');
    ArrayOutputStream aos(&out[0], int(out.size()), block);
    size_t written;
    bool ok;
    {
      CodedOutputStream cos(&aos);
      ok = Serialization::serialize_to_coded_stream(v, cos);
      written = size_t(cos.ByteCount());
    }
    if (!ok || written != predicted || memcmp(out.data(), bytes.data(), predicted) != 0) {
      sink()->violation(::std::string("c11:serialize-variants-differ:") + type,
                        vf::fmt("serialize_to_coded_stream over a %d-byte-block stream: ok=%d wrote %zu, expected %zu", block,
                                int(ok), written, predicted),
                        "string=" + hex(bytes) + "\nstream=" + hex(out.substr(0, written)));
      return false;
    }
  }
  return true;
}

// parse `bytes` under every presentation not in `skip_kinds` and compare with `expect`
template <typename T>
void check_parse_all(const char* phase, const char* type, const ::std::string& bytes, const T& expect, unsigned skip_kinds,
                     uint64_t salt, const ::std::string& what) {
  for (const Pres& p : presentations()) {
    if (skip_kinds & (1u << p.kind)) continue;
    bb_set(phase, type, &p, bytes);
    Holder<T> h;
    ParseOutcome o = parse_with(p, bytes, h.ref(), salt);
    auto where = [&] { return ::std::string(type) + ":" + pres_class(p.kind); };
    auto detail = [&] {
      return vf::fmt("%s\ntype=%s presentation=%s block=%d size=%zu\nbytes=", what.c_str(), type, pres_class(p.kind),
                     p.block, bytes.size()) + hex(bytes);
    };
    if (!o.ok) {
      sink()->violation("c11:parse-failed:" + where(), "parsing a valid encoding reported failure", detail());
      continue;
    }
    if (!eq(h.ref(), expect)) {
      ::std::string again;
      Serialization::serialize_to_string(h.ref(), again);
      sink()->violation("c11:roundtrip-mismatch:" + where(),
                        "parse(serialize(v)) differs from v (null-for-empty-pointee rule applied)",
                        detail() + "\nreserialized(parsed)=" + hex(again));
      continue;
    }
    if (!o.consumed_to_limit) {
      sink()->violation("c11:limit-not-consumed:" + where(),
                        "parser returned success without consuming the bytes up to the enclosing limit", detail());
    }
  }
}

template <typename T>
void roundtrip_value(const char* type, Holder<T>& src, unsigned skip_kinds, uint64_t salt) {
  T& v = src.ref();
  ::std::string bytes;
  bb_set("roundtrip", type, nullptr, "");
  if (!serialize_all_ways(type, v, bytes, salt)) return;
  norm(v);  // expected value
  check_parse_all("roundtrip", type, bytes, v, skip_kinds, salt, "seeded value");
  bool nontrivial = bytes.size() >= 128 || bytes.empty();  // multi-byte length prefixes / empty encoding
  VF_COUNT("obs:roundtrip_values");
  if (bytes.empty()) VF_COUNT("rare:empty_encoding");
  if (bytes.size() >= 128) VF_COUNT("rare:len_prefix_2byte");
  if (bytes.size() >= 16384) VF_COUNT("rare:len_prefix_3byte");
  sink()->evaluated(vf::mix(vf::mix(0xC11, ::std::hash<::std::string> {}(type)), ::std::hash<::std::string> {}(bytes)),
                    nontrivial);
}

////////////////////////////////////////////////////////////////////////////////
// hostile input: parse must return; on success the result must be stable under
// serialize -> parse and the predicted size must match.
template <typename T>
bool hostile_one(const char* type, const ::std::string& input, const Pres& p, uint64_t salt) {
  bb_set("hostile", type, &p, input);
  Holder<T> h1;
  ParseOutcome o = parse_with(p, input, h1.ref(), salt);
  if (!o.ok) {
    VF_COUNT("obs:hostile_rejected");
    return false;
  }
  VF_COUNT("obs:hostile_accepted");
  ::std::string s1;
  auto detail = [&] {
    return vf::fmt("type=%s presentation=%s block=%d input(%zu)=", type, pres_class(p.kind), p.block, input.size()) +
           hex(input);
  };
  if (!Serialization::serialize_to_string(h1.ref(), s1)) {
    sink()->violation(::std::string("c11:hostile:reserialize-failed:") + type,
                      "value accepted by the parser cannot be serialized", detail());
    return true;
  }
  size_t predicted = Serialization::calculate_serialized_size(h1.ref());
  if (predicted != s1.size()) {
    sink()->violation(::std::string("c11:hostile:size-mismatch:") + type,
                      vf::fmt("accepted value: calculate_serialized_size = %zu but %zu bytes produced", predicted, s1.size()),
                      detail() + "\nreserialized=" + hex(s1));
    return true;
  }
  Holder<T> h2;
  Pres arr {P_ARRAY, 0};
  bb_set("hostile-reparse", type, &arr, s1);
  ParseOutcome o2 = parse_with(arr, s1, h2.ref(), salt);
  norm(h1.ref());
  if (!o2.ok || !eq(h2.ref(), h1.ref())) {
    ::std::string s2;
    if (o2.ok) Serialization::serialize_to_string(h2.ref(), s2);
    sink()->violation(::std::string("c11:hostile:unstable-reparse:") + type,
                      o2.ok ? "value accepted from hostile bytes does not serialize and parse back to itself"
                            : "re-serialized accepted value is rejected by the parser",
                      detail() + "\nreserialized=" + hex(s1) + "\nreserialized twice=" + hex(s2));
  }
  return true;
}

////////////////////////////////////////////////////////////////////////////////
// root types
#define ZOO_ROOTS(X)                                                             \
  X(bool, "bool")                                                                \
  X(int8_t, "i8")                                                                \
  X(int16_t, "i16")                                                              \
  X(int32_t, "i32")                                                              \
  X(int64_t, "i64")                                                              \
  X(uint8_t, "u8")                                                               \
  X(uint16_t, "u16")                                                             \
  X(uint32_t, "u32")                                                             \
  X(uint64_t, "u64")                                                             \
  X(float, "float")                                                              \
  X(double, "double")                                                            \
  X(EnumI8, "enum_i8")                                                           \
  X(EnumU64, "enum_u64")                                                         \
  X(PlainEnum, "enum_plain")                                                     \
  X(::std::string, "string")                                                     \
  X(::std::vector<int32_t>, "vector_i32")                                        \
  X(::std::vector<uint64_t>, "vector_u64")                                       \
  X(::std::vector<int8_t>, "vector_i8")                                          \
  X(::std::vector<float>, "vector_float")                                        \
  X(::std::vector<double>, "vector_double")                                      \
  X(::std::vector<bool>, "vector_bool")                                          \
  X(::std::vector<::std::string>, "vector_string")                               \
  X(::std::vector<EnumI8>, "vector_enum")                                        \
  X(::std::vector<::std::vector<int32_t>>, "vector_vector_i32")                  \
  X(::std::vector<Small>, "vector_Small")                                        \
  X(::std::list<int64_t>, "list_i64")                                            \
  X(::std::list<::std::string>, "list_string")                                   \
  X(::std::list<Small>, "list_Small")                                            \
  X(::std::unordered_set<int32_t>, "uset_i32")                                   \
  X(::std::unordered_set<::std::string>, "uset_string")                          \
  X(ZOO_MAP_I32_STRING, "umap_i32_string")                                       \
  X(ZOO_MAP_STRING_VECD, "umap_string_vector_double")                            \
  X(ZOO_MAP_U64_SMALL, "umap_u64_Small")                                         \
  X(::std::unique_ptr<int32_t>, "uptr_i32")                                      \
  X(::std::unique_ptr<::std::string>, "uptr_string")                             \
  X(::std::unique_ptr<Small>, "uptr_Small")                                      \
  X(::std::unique_ptr<Hollow>, "uptr_Hollow")                                    \
  X(::std::shared_ptr<::std::string>, "sptr_string")                             \
  X(::std::shared_ptr<Containers>, "sptr_Containers")                            \
  X(::std::vector<::std::unique_ptr<::std::string>>, "vector_uptr_string")       \
  X(::std::vector<::std::shared_ptr<Small>>, "vector_sptr_Small")                \
  X(Small, "Small")                                                              \
  X(Hollow, "Hollow")                                                            \
  X(AllScalars, "AllScalars")                                                    \
  X(Containers, "Containers")                                                    \
  X(CachedBig, "CachedBig")                                                      \
  X(WithBase, "WithBase")                                                        \
  X(WithBaseTagged, "WithBaseTagged")                                            \
  X(Ptrs, "Ptrs")                                                                \
  X(Arrays, "Arrays")                                                            \
  X(L5, "L5_nested6")                                                            \
  X(WithMsg, "WithMsg")                                                          \
  X(TestMessage, "pb_TestMessage")                                               \
  X(ArenaExample, "pb_ArenaExample")                                             \
  X(SwissAgg, "SwissAgg")                                                        \
  X(Twin, "Twin")

using ZOO_MAP_I32_STRING = ::std::unordered_map<int32_t, ::std::string>;
using ZOO_MAP_STRING_VECD = ::std::unordered_map<::std::string, ::std::vector<double>>;
using ZOO_MAP_U64_SMALL = ::std::unordered_map<uint64_t, Small>;

#define ZOO_COUNT_ONE(T, N) +1
constexpr int kRoots = 0 ZOO_ROOTS(ZOO_COUNT_ONE);
#undef ZOO_COUNT_ONE

inline const char* root_name(int idx) {
  static const char* names[] = {
#define ZOO_NAME(T, N) N,
      ZOO_ROOTS(ZOO_NAME)
#undef ZOO_NAME
  };
  return idx >= 0 && idx < kRoots ? names[idx] : "?";
}

// f.template operator()<T>(name) for root number idx
template <typename F>
void with_root(int idx, F&& f) {
  int i = 0;
#define ZOO_DISPATCH(T, N)                        \
  if (i++ == idx) {                               \
    f.template operator()<T>(N);                  \
    return;                                       \
  }
  ZOO_ROOTS(ZOO_DISPATCH)
#undef ZOO_DISPATCH
}

// `int` members standing for a protobuf enum must hold one of its values (proto2
// closed enum: anything else is moved to the unknown fields by protobuf itself)
inline void fix_twin_enums(Gen& g, Twin& t) {
  auto pick = [&] { return g.r.chance(1, 2) ? int(::babylon::E1) : int(::babylon::E2); };
  t.m.e = pick();
  if (t.pm) t.pm->e = pick();
  for (auto& e : t.rpe) e = pick();
}

template <typename T>
void gen_root(Gen& g, Holder<T>& h) {
  if constexpr (::std::is_same_v<T, Twin>) {
    bool saved = g.compat;
    g.compat = true;
    gen(g, h.ref());
    fix_twin_enums(g, h.ref());
    g.compat = saved;
  } else {
    gen(g, h.ref());
  }
}

}  // namespace zoo
