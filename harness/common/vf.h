// Common runtime for all babylon monitors: seeded PRNG, client-boundary time
// stamps, perturbation policy wired to BABYLON_VERIF_POINT, counters for rare
// branches, violation / witness recording, progress watchdog, JSON report.
//
// Header-only, included by exactly one translation unit per harness.
#pragma once

#include <dirent.h>
#include <fcntl.h>
#include <sched.h>
#include <signal.h>
#include <stdarg.h>
#include <stdint.h>
#include <stdio.h>
#include <stdlib.h>
#include <string.h>
#include <sys/stat.h>
#include <sys/syscall.h>
#include <sys/time.h>
#include <time.h>
#include <unistd.h>
#include <x86intrin.h>

#include <algorithm>
#include <atomic>
#include <functional>
#include <map>
#include <mutex>
#include <set>
#include <string>
#include <thread>
#include <vector>

#include "babylon/environment.h"

#if defined(__SANITIZE_THREAD__)
#define VF_TSAN 1
#else
#define VF_TSAN 0
#endif
#if defined(__SANITIZE_ADDRESS__)
#define VF_ASAN 1
#else
#define VF_ASAN 0
#endif

namespace vf {

////////////////////////////////////////////////////////////////////////////////
// PRNG
inline uint64_t splitmix(uint64_t& x) {
  uint64_t z = (x += 0x9e3779b97f4a7c15ULL);
  z = (z ^ (z >> 30)) * 0xbf58476d1ce4e5b9ULL;
  z = (z ^ (z >> 27)) * 0x94d049bb133111ebULL;
  return z ^ (z >> 31);
}
inline uint64_t mix(uint64_t a, uint64_t b = 0, uint64_t c = 0, uint64_t d = 0) {
  uint64_t x = a * 0x9e3779b97f4a7c15ULL + 0x1234567;
  uint64_t r = splitmix(x);
  x ^= b * 0xc2b2ae3d27d4eb4fULL + r;
  r = splitmix(x);
  x ^= c * 0x165667b19e3779f9ULL + r;
  r = splitmix(x);
  x ^= d * 0x27d4eb2f165667c5ULL + r;
  return splitmix(x);
}
struct Rng {
  uint64_t s[4];
  explicit Rng(uint64_t seed = 1) { reseed(seed); }
  void reseed(uint64_t seed) {
    uint64_t x = seed;
    for (auto& v : s) v = splitmix(x);
  }
  static inline uint64_t rotl(uint64_t x, int k) { return (x << k) | (x >> (64 - k)); }
  uint64_t next() {
    uint64_t result = rotl(s[1] * 5, 7) * 9, t = s[1] << 17;
    s[2] ^= s[0]; s[3] ^= s[1]; s[1] ^= s[2]; s[0] ^= s[3]; s[2] ^= t;
    s[3] = rotl(s[3], 45);
    return result;
  }
  // uniform in [0, n)
  uint64_t below(uint64_t n) { return n ? next() % n : 0; }
  // uniform in [lo, hi]
  uint64_t range(uint64_t lo, uint64_t hi) { return lo + below(hi - lo + 1); }
  bool chance(uint64_t num, uint64_t den) { return below(den) < num; }
  template <typename T>
  const T& pick(const std::vector<T>& v) { return v[below(v.size())]; }
  template <typename T>
  T pick(std::initializer_list<T> l) { return *(l.begin() + below(l.size())); }
};

////////////////////////////////////////////////////////////////////////////////
// Client-boundary stamps (DESIGN §2.2). `call`: no later load of the operation
// can start before the stamp. `ret`: every earlier store is globally visible
// before the stamp. TSan ignores fences, so they add no happens-before edge.
inline uint64_t stamp_call() {
  unsigned aux;
  uint64_t t = __rdtscp(&aux);
  _mm_lfence();
  return t;
}
inline uint64_t stamp_ret() {
  _mm_mfence();
  unsigned aux;
  return __rdtscp(&aux);
}
inline double now_s() {
  struct timespec ts;
  ::syscall(SYS_clock_gettime, CLOCK_MONOTONIC, &ts);
  return double(ts.tv_sec) + double(ts.tv_nsec) * 1e-9;
}
inline void raw_sleep_us(uint64_t us) {
  struct timespec ts;
  ts.tv_sec = time_t(us / 1000000);
  ts.tv_nsec = long((us % 1000000) * 1000);
  ::syscall(SYS_nanosleep, &ts, nullptr);
}

////////////////////////////////////////////////////////////////////////////////
// JSON helpers
inline std::string jstr(const std::string& s) {
  std::string o = "\"";
  for (unsigned char c : s) {
    if (c == '"') o += "\\\"";
    else if (c == '\\') o += "\\\\";
    else if (c == '\n') o += "\\n";
    else if (c == '\t') o += "\\t";
    else if (c < 0x20 || c >= 0x7f) { char b[8]; snprintf(b, sizeof b, "\\u%04x", c); o += b; }
    else o += char(c);
  }
  return o + "\"";
}
inline std::string fmt(const char* f, ...) __attribute__((format(printf, 1, 2)));
inline std::string fmt(const char* f, ...) {
  va_list ap;
  va_start(ap, f);
  char buf[4096];
  vsnprintf(buf, sizeof buf, f, ap);
  va_end(ap);
  return buf;
}

////////////////////////////////////////////////////////////////////////////////
// Args
struct Args {
  uint64_t seed = 1;
  bool thorough = false;
  std::string out;         // JSON report path
  std::string replay_dir;  // witness directory
  std::string variant = VF_TSAN ? "tsan" : (VF_ASAN ? "asan" : "plain");
  double scale = 1.0;      // episode budget multiplier chosen by the driver
  std::string mode;        // harness-specific sub-mode
  int64_t only_episode = -1;
  std::map<std::string, std::string> kv;
  long get(const std::string& k, long d) const {
    auto it = kv.find(k);
    return it == kv.end() ? d : atol(it->second.c_str());
  }
};
inline Args& args() { static Args a; return a; }

////////////////////////////////////////////////////////////////////////////////
// Counters: rare branches / schedule points / oracle events. Relaxed RMWs, so
// they add no happens-before edge that could hide a race from TSan.
struct Counter {
  std::string name;
  std::atomic<uint64_t> v {0};
};
struct Registry {
  std::mutex mu;
  std::vector<Counter*> counters;  // leaked on purpose (no static-destruction races)
};
inline Registry& registry() { static Registry* r = new Registry; return *r; }
inline Counter& counter(const std::string& name) {
  auto& r = registry();
  std::lock_guard<std::mutex> g(r.mu);
  for (auto* c : r.counters) if (c->name == name) return *c;
  auto* c = new Counter;
  c->name = name;
  r.counters.push_back(c);
  return *c;
}
#define VF_COUNT_N(name, n)                                        \
  do {                                                             \
    static ::vf::Counter& vf_c_ = ::vf::counter(name);             \
    vf_c_.v.fetch_add((n), ::std::memory_order_relaxed);           \
  } while (0)
#define VF_COUNT(name) VF_COUNT_N(name, 1)
inline uint64_t counter_value(const std::string& name) {
  return counter(name).v.load(std::memory_order_relaxed);
}

////////////////////////////////////////////////////////////////////////////////
// Progress + per-thread state (used by the watchdog and the stuck rule)
inline std::atomic<uint64_t>& progress_counter() { static std::atomic<uint64_t> p {0}; return p; }
// Harness threads announced (before creation) vs. actually started: the stuck rule never
// fires while a thread of the episode has not even begun (slow thread creation on a loaded box).
inline std::atomic<uint64_t>& threads_expected() { static std::atomic<uint64_t> p {0}; return p; }
inline std::atomic<uint64_t>& threads_started() { static std::atomic<uint64_t> p {0}; return p; }
inline void expect_threads(uint64_t n) { threads_expected().fetch_add(n, std::memory_order_relaxed); }
inline void progress(uint64_t n = 1) { progress_counter().fetch_add(n, std::memory_order_relaxed); }

struct ThreadState {
  std::atomic<int> tid {0};            // kernel tid, 0 = slot free
  std::atomic<int> logical {-1};       // harness thread index
  std::atomic<const char*> op {nullptr};  // current client operation (for dumps)
  std::atomic<uint64_t> op_arg {0};
  std::atomic<uint32_t*> futex_addr {nullptr};  // non-null while inside FUTEX_WAIT
  std::atomic<uint32_t> futex_val {0};
  std::atomic<uint64_t> futex_waits {0};
  std::atomic<uint64_t> futex_slept {0};  // waits that returned 0 (really slept + woken)
  std::atomic<uint64_t> futex_eagain {0};
  std::atomic<uint64_t> futex_timedout {0};
  std::atomic<uint64_t> futex_wakes {0};
  std::atomic<uint64_t> futex_woken {0};  // sum of wake return values
};
constexpr int kMaxThreads = 512;
inline ThreadState* thread_states() { static ThreadState* s = new ThreadState[kMaxThreads]; return s; }
inline void release_state(ThreadState* s) {
  if (s) {
    s->logical.store(-1, std::memory_order_relaxed);
    s->futex_addr.store(nullptr, std::memory_order_relaxed);
    s->op.store(nullptr, std::memory_order_relaxed);
    s->tid.store(0, std::memory_order_relaxed);
  }
}
// Slot is released when the thread exits (library-internal threads included).
struct TlStateHolder {
  ThreadState* s = nullptr;
  ~TlStateHolder() { release_state(s); s = nullptr; }
};
inline ThreadState*& tl_state() { static thread_local TlStateHolder h; return h.s; }
inline Rng& tl_rng() { static thread_local Rng r {0x5eed}; return r; }
inline ThreadState* my_state() {
  auto*& s = tl_state();
  if (s == nullptr) {
    auto* all = thread_states();
    int tid = int(::syscall(SYS_gettid));
    for (int i = 0; i < kMaxThreads; ++i) {
      int expect = 0;
      if (all[i].tid.load(std::memory_order_relaxed) == 0 &&
          all[i].tid.compare_exchange_strong(expect, tid, std::memory_order_relaxed)) {
        s = &all[i];
        break;
      }
    }
    if (s == nullptr) { static ThreadState overflow; return &overflow; }
  }
  return s;
}
// Call at the start / end of every harness thread.
inline void thread_begin(uint64_t episode_seed, int logical) {
  tl_rng().reseed(mix(episode_seed, uint64_t(logical) + 1, 0x7ead));
  auto* s = my_state();
  s->logical.store(logical, std::memory_order_relaxed);
  s->op.store(nullptr, std::memory_order_relaxed);
  threads_started().fetch_add(1, std::memory_order_relaxed);
}
inline void thread_end() {
  auto*& s = tl_state();
  release_state(s);
  s = nullptr;
}
inline void set_op(const char* op, uint64_t arg = 0) {
  auto* s = my_state();
  s->op.store(op, std::memory_order_relaxed);
  s->op_arg.store(arg, std::memory_order_relaxed);
}

////////////////////////////////////////////////////////////////////////////////
// Perturbation policy (DESIGN §2.3). Drawn per episode by the harness.
struct StallPoint {
  std::atomic<const char*> name {nullptr};  // interned point name (nullptr = unused)
  std::atomic<uint64_t> kth {0};            // stall on the kth hit (1-based) of this episode
  std::atomic<uint64_t> us {0};
  std::atomic<uint64_t> hits {0};
  std::atomic<uint64_t> fired {0};
};
inline const char* intern(const std::string& s) {
  static std::mutex mu;
  static std::set<std::string>* pool = new std::set<std::string>;
  std::lock_guard<std::mutex> g(mu);
  return pool->insert(s).first->c_str();
}
struct Policy {
  std::atomic<uint32_t> yield_per_1024 {0};
  std::atomic<uint32_t> sleep_per_65536 {0};
  std::atomic<uint32_t> max_sleep_us {200};
  std::atomic<bool> enabled {false};
  StallPoint stalls[4];
  std::atomic<int> nstalls {0};
};
inline Policy& policy() { static Policy* p = new Policy; return *p; }

struct PointStat {
  std::atomic<const char*> key {nullptr};
  std::atomic<Counter*> hits {nullptr};
};
constexpr int kPointSlots = 1024;
inline PointStat* point_table() { static PointStat* t = new PointStat[kPointSlots]; return t; }
inline Counter& point_counter(const char* name) {
  auto* t = point_table();
  size_t h = (reinterpret_cast<uintptr_t>(name) >> 3) * 0x9e3779b1u;
  for (int probe = 0; probe < kPointSlots; ++probe) {
    auto& e = t[(h + probe) & (kPointSlots - 1)];
    const char* k = e.key.load(std::memory_order_acquire);
    if (k == name) {
      Counter* c = e.hits.load(std::memory_order_acquire);
      if (c) return *c;
      return counter(std::string("point:") + name);
    }
    if (k == nullptr) {
      Counter& c = counter(std::string("point:") + name);
      const char* expect = nullptr;
      if (e.key.compare_exchange_strong(expect, name, std::memory_order_acq_rel)) {
        e.hits.store(&c, std::memory_order_release);
      }
      return c;
    }
  }
  return counter(std::string("point:") + name);
}

// Name comparison outside TSan's view: stall-point names are interned by the thread that
// draws the policy and compared by whatever thread passes a point; instrumenting the compare
// would either report that (harness-only) race or, with release/acquire, add a happens-before
// edge between the policy drawer and every library thread.
__attribute__((no_sanitize("thread"), noinline)) inline bool point_name_equal(const char* a, const char* b) noexcept {
  if (a == b) return true;
  while (*a && *a == *b) { ++a; ++b; }
  return *a == *b;
}
// The single entry used by library hooks and by harness callbacks alike.
inline void perturb(const char* name) noexcept {
  Counter& c = point_counter(name);
  c.v.fetch_add(1, std::memory_order_relaxed);
  Policy& p = policy();
  if (!p.enabled.load(std::memory_order_relaxed)) return;
  int n = p.nstalls.load(std::memory_order_relaxed);
  for (int i = 0; i < n; ++i) {
    StallPoint& sp = p.stalls[i];
    const char* spn = sp.name.load(std::memory_order_relaxed);
    if (spn != nullptr && point_name_equal(spn, name)) {
      uint64_t k = sp.hits.fetch_add(1, std::memory_order_relaxed) + 1;
      if (k == sp.kth.load(std::memory_order_relaxed)) {
        sp.fired.fetch_add(1, std::memory_order_relaxed);
        VF_COUNT("policy:stall_fired");
        raw_sleep_us(sp.us.load(std::memory_order_relaxed));
        return;
      }
    }
  }
  Rng& r = tl_rng();
  uint64_t x = r.next();
  if ((x & 1023) < p.yield_per_1024.load(std::memory_order_relaxed)) {
    ::sched_yield();
  } else if (((x >> 16) & 65535) < p.sleep_per_65536.load(std::memory_order_relaxed)) {
    raw_sleep_us(1 + (x >> 40) % p.max_sleep_us.load(std::memory_order_relaxed));
  }
}
inline void install_hook() {
#ifdef BABYLON_VERIF
  ::babylon::verif::point_hook = &perturb;
#endif
}
// Draw a policy for one episode. `points` are candidate stall points.
inline std::string draw_policy(Rng& r, const std::vector<std::string>& points,
                               uint64_t max_kth = 200, uint64_t max_stall_us = 20000) {
  Policy& p = policy();
  p.enabled.store(false, std::memory_order_relaxed);
  static const uint32_t yields[] = {0, 0, 8, 32, 128};
  static const uint32_t sleeps[] = {0, 0, 16, 64, 256};
  uint32_t y = yields[r.below(5)], s = sleeps[r.below(5)];
  p.yield_per_1024.store(y, std::memory_order_relaxed);
  p.sleep_per_65536.store(s, std::memory_order_relaxed);
  p.max_sleep_us.store(uint32_t(r.pick<uint32_t>({20, 200, 2000})), std::memory_order_relaxed);
  int n = points.empty() ? 0 : int(r.below(4));
  std::string desc = fmt("yield=%u/1024 sleep=%u/65536", y, s);
  for (int i = 0; i < 4; ++i) {
    p.stalls[i].hits.store(0, std::memory_order_relaxed);
    p.stalls[i].fired.store(0, std::memory_order_relaxed);
    if (i < n) {
      const char* nm = intern(points[r.below(points.size())]);
      uint64_t kth = 1 + r.below(max_kth), us = 500 + r.below(max_stall_us);
      p.stalls[i].name.store(nm, std::memory_order_relaxed);
      p.stalls[i].kth.store(kth, std::memory_order_relaxed);
      p.stalls[i].us.store(us, std::memory_order_relaxed);
      desc += fmt(" stall(%s#%lu,%luus)", nm, (unsigned long)kth, (unsigned long)us);
    } else {
      p.stalls[i].name.store(nullptr, std::memory_order_relaxed);
    }
  }
  p.nstalls.store(n, std::memory_order_relaxed);
  p.enabled.store(true, std::memory_order_release);
  return desc;
}
inline void disable_policy() { policy().enabled.store(false, std::memory_order_relaxed); }

////////////////////////////////////////////////////////////////////////////////
// Report
struct Violation {
  std::string key, msg, witness;
};
struct Report {
  std::mutex mu;
  std::string harness;
  std::string property;
  std::vector<Violation> violations;
  std::vector<std::string> inconclusive;
  std::vector<std::string> samples;   // JSON values
  std::vector<std::string> notes;
  std::vector<std::string> shortfalls;
  std::map<std::string, std::string> extra;  // key -> JSON value
  std::set<uint64_t> fingerprints;
  std::set<uint64_t> nontrivial;
  uint64_t evaluations = 0;
  double t0 = now_s();
  std::atomic<int> nviol {0};
  std::atomic<bool> finished {false};
};
inline Report& report() { static Report* r = new Report; return *r; }

inline bool failed() { return report().nviol.load(std::memory_order_relaxed) > 0; }

inline std::string sanitize_key(const std::string& k) {
  std::string o;
  for (char c : k) o += (isalnum((unsigned char)c) || c == '-' || c == '_' || c == '.') ? c : '_';
  if (o.size() > 80) o.resize(80);
  return o;
}

// Record a violation and write its witness file. `detail` is free text (history
// slice, configuration, …). Returns the witness path.
inline std::string violation(const std::string& key, const std::string& msg,
                             const std::string& detail = "") {
  Report& r = report();
  std::lock_guard<std::mutex> g(r.mu);
  for (auto& v : r.violations) {
    if (v.key == key) { r.nviol.fetch_add(1); return v.witness; }
  }
  std::string path;
  if (r.violations.size() < 32) {
    const Args& a = args();
    std::string dir = a.replay_dir.empty() ? "." : a.replay_dir;
    ::mkdir(dir.c_str(), 0755);
    path = dir + "/" + r.property + "-" + a.variant + "-s" + std::to_string(a.seed) + "-" +
           sanitize_key(key) + ".json";
    FILE* f = fopen(path.c_str(), "w");
    if (f) {
      fprintf(f,
              "{\"property\": %s, \"harness\": %s, \"variant\": %s, \"seed\": %lu, \"tier\": %s,\n"
              " \"mode\": %s, \"key\": %s,\n \"message\": %s,\n \"detail\": %s}\n",
              jstr(r.property).c_str(), jstr(r.harness).c_str(), jstr(a.variant).c_str(),
              (unsigned long)a.seed, a.thorough ? "\"thorough\"" : "\"quick\"",
              jstr(a.mode).c_str(), jstr(key).c_str(), jstr(msg).c_str(), jstr(detail).c_str());
      fclose(f);
    }
    r.violations.push_back({key, msg, path});
    fprintf(stderr, "[vf] VIOLATION-CANDIDATE key=%s : %s\n", key.c_str(), msg.c_str());
  }
  r.nviol.fetch_add(1);
  return path;
}
inline void inconclusive(const std::string& what) {
  Report& r = report();
  std::lock_guard<std::mutex> g(r.mu);
  r.inconclusive.push_back(what);
  fprintf(stderr, "[vf] INCONCLUSIVE %s\n", what.c_str());
}
inline void note(const std::string& what) {
  Report& r = report();
  std::lock_guard<std::mutex> g(r.mu);
  if (r.notes.size() < 64) r.notes.push_back(what);
}
inline void shortfall(const std::string& what) {
  Report& r = report();
  std::lock_guard<std::mutex> g(r.mu);
  r.shortfalls.push_back(what);
}
// samples are JSON values already (objects/strings)
inline void sample(const std::string& json, size_t max = 4) {
  Report& r = report();
  std::lock_guard<std::mutex> g(r.mu);
  if (r.samples.size() < max) r.samples.push_back(json);
}
inline void extra(const std::string& k, const std::string& json) {
  Report& r = report();
  std::lock_guard<std::mutex> g(r.mu);
  r.extra[k] = json;
}
// One evaluated case (episode / op sequence / input). `fp` identifies it,
// `nontrivial` per the harness' stated rule.
inline void evaluated(uint64_t fp, bool nontrivial) {
  Report& r = report();
  std::lock_guard<std::mutex> g(r.mu);
  ++r.evaluations;
  r.fingerprints.insert(fp);
  if (nontrivial) r.nontrivial.insert(fp);
}

inline void write_report() {
  Report& r = report();
  bool expect = false;
  if (!r.finished.compare_exchange_strong(expect, true)) return;
  const Args& a = args();
  std::string o = "{";
  o += "\"harness\": " + jstr(r.harness) + ", \"property\": " + jstr(r.property) +
       ", \"variant\": " + jstr(a.variant) + ", \"mode\": " + jstr(a.mode) +
       fmt(", \"seed\": %lu, \"tier\": \"%s\", \"wall_s\": %.3f", (unsigned long)a.seed,
           a.thorough ? "thorough" : "quick", now_s() - r.t0);
  {
    std::unique_lock<std::mutex> g(r.mu, std::try_to_lock);  // may be called from a stuck handler
    o += fmt(", \"evaluations\": %lu, \"distinct\": %lu, \"distinct_nontrivial\": %lu",
             (unsigned long)r.evaluations, (unsigned long)r.fingerprints.size(),
             (unsigned long)r.nontrivial.size());
    o += ", \"violations\": [";
    for (size_t i = 0; i < r.violations.size(); ++i) {
      auto& v = r.violations[i];
      o += std::string(i ? ", " : "") + "{\"key\": " + jstr(v.key) + ", \"msg\": " + jstr(v.msg) +
           ", \"witness\": " + jstr(v.witness) + "}";
    }
    o += "], \"inconclusive\": [";
    for (size_t i = 0; i < r.inconclusive.size(); ++i) o += std::string(i ? ", " : "") + jstr(r.inconclusive[i]);
    o += "], \"notes\": [";
    for (size_t i = 0; i < r.notes.size(); ++i) o += std::string(i ? ", " : "") + jstr(r.notes[i]);
    o += "], \"shortfalls\": [";
    for (size_t i = 0; i < r.shortfalls.size(); ++i) o += std::string(i ? ", " : "") + jstr(r.shortfalls[i]);
    o += "], \"samples\": [";
    for (size_t i = 0; i < r.samples.size(); ++i) o += std::string(i ? ", " : "") + r.samples[i];
    o += "], \"extra\": {";
    bool first = true;
    for (auto& kv : r.extra) { o += std::string(first ? "" : ", ") + jstr(kv.first) + ": " + kv.second; first = false; }
    o += "}";
  }
  o += ", \"counters\": {";
  {
    auto& reg = registry();
    std::unique_lock<std::mutex> g(reg.mu, std::try_to_lock);
    bool first = true;
    for (auto* c : reg.counters) {
      o += std::string(first ? "" : ", ") + jstr(c->name) + ": " +
           std::to_string(c->v.load(std::memory_order_relaxed));
      first = false;
    }
  }
  // futex totals
  {
    uint64_t waits = 0, slept = 0, eagain = 0, tmo = 0, wakes = 0, woken = 0;
    auto* all = thread_states();
    for (int i = 0; i < kMaxThreads; ++i) {
      waits += all[i].futex_waits.load(std::memory_order_relaxed);
      slept += all[i].futex_slept.load(std::memory_order_relaxed);
      eagain += all[i].futex_eagain.load(std::memory_order_relaxed);
      tmo += all[i].futex_timedout.load(std::memory_order_relaxed);
      wakes += all[i].futex_wakes.load(std::memory_order_relaxed);
      woken += all[i].futex_woken.load(std::memory_order_relaxed);
    }
    o += fmt("}, \"futex\": {\"waits\": %lu, \"slept\": %lu, \"eagain\": %lu, \"timedout\": %lu, "
             "\"wakes\": %lu, \"woken\": %lu}",
             (unsigned long)waits, (unsigned long)slept, (unsigned long)eagain, (unsigned long)tmo,
             (unsigned long)wakes, (unsigned long)woken);
  }
  o += "}\n";
  if (a.out.empty()) {
    fputs(o.c_str(), stdout);
    fflush(stdout);
  } else {
    std::string tmp = a.out + ".tmp";
    FILE* f = fopen(tmp.c_str(), "w");
    if (f) { fputs(o.c_str(), f); fclose(f); ::rename(tmp.c_str(), a.out.c_str()); }
  }
}

// exit codes of a harness process: 0 held, 3 violations recorded, 4 inconclusive
inline int finish() {
  Report& r = report();
  int code = 0;
  {
    std::lock_guard<std::mutex> g(r.mu);
    if (!r.violations.empty()) code = 3;
    else if (!r.inconclusive.empty()) code = 4;
  }
  write_report();
  fflush(stdout);
  fflush(stderr);
  return code;
}
[[noreturn]] inline void finish_and_exit_now() {
  int code = finish();
  _exit(code);
}

////////////////////////////////////////////////////////////////////////////////
// Watchdog: stuck rule (DESIGN §2.6). The harness supplies `classify`, called
// (from the watchdog thread) when the progress counter did not move for
// `grace_s`. It returns true if the logical preconditions of the stuck rule
// hold (balanced workload, every counterpart returned): then the hang is a
// violation with the thread dump as witness; otherwise the run is inconclusive.
__attribute__((no_sanitize("thread"))) inline std::string thread_dump() {
  std::string o;
  auto* all = thread_states();
  for (int i = 0; i < kMaxThreads; ++i) {
    int tid = all[i].tid.load(std::memory_order_relaxed);
    if (tid == 0) continue;
    int lg = all[i].logical.load(std::memory_order_relaxed);
    const char* op = all[i].op.load(std::memory_order_relaxed);
    uint32_t* fa = all[i].futex_addr.load(std::memory_order_relaxed);
    char sc[256] = "";
    {
      char p[64];
      snprintf(p, sizeof p, "/proc/self/task/%d/syscall", tid);
      int fd = ::open(p, O_RDONLY);
      if (fd >= 0) {
        ssize_t n = ::read(fd, sc, sizeof sc - 1);
        if (n > 0) { sc[n] = 0; if (sc[n - 1] == '\n') sc[n - 1] = 0; }
        ::close(fd);
      }
    }
    o += fmt("t%d(tid %d) op=%s arg=%lu", lg, tid, op ? op : "-",
             (unsigned long)all[i].op_arg.load(std::memory_order_relaxed));
    if (fa) {
      uint32_t cur = __atomic_load_n(fa, __ATOMIC_RELAXED);
      o += fmt(" asleep:futex_wait(addr=%p,val=0x%x) word_now=0x%x%s", (void*)fa,
               all[i].futex_val.load(std::memory_order_relaxed), cur,
               cur != all[i].futex_val.load(std::memory_order_relaxed) ? " [VALUE CHANGED, NOT WOKEN]" : "");
    }
    o += fmt(" syscall=[%s]\n", sc);
  }
  return o;
}
// true if some registered thread sleeps in FUTEX_WAIT on a word whose value
// differs from the value it went to sleep on (the kernel would have refused the
// wait): a wake-up that was owed and never delivered.
__attribute__((no_sanitize("thread"))) inline bool any_sleeper_with_changed_word() {
  auto* all = thread_states();
  for (int i = 0; i < kMaxThreads; ++i) {
    if (all[i].tid.load(std::memory_order_relaxed) == 0) continue;
    uint32_t* fa = all[i].futex_addr.load(std::memory_order_relaxed);
    if (fa && __atomic_load_n(fa, __ATOMIC_RELAXED) != all[i].futex_val.load(std::memory_order_relaxed)) return true;
  }
  return false;
}

// Scheduler view of one registered thread (for the starvation test of the stuck rule).
struct SchedSample {
  int tid = 0;
  uint64_t run_ns = 0;   // CPU time received so far (schedstat field 1)
  int running = 0;       // samples in which the thread was in user space / runnable
};
inline uint64_t thread_run_ns(int tid) {
  char p[64], b[128];
  snprintf(p, sizeof p, "/proc/self/task/%d/schedstat", tid);
  int fd = ::open(p, O_RDONLY);
  if (fd < 0) return 0;
  ssize_t n = ::read(fd, b, sizeof b - 1);
  ::close(fd);
  if (n <= 0) return 0;
  b[n] = 0;
  return strtoull(b, nullptr, 10);
}
inline bool thread_in_userspace(int tid) {
  char p[64], b[32];
  snprintf(p, sizeof p, "/proc/self/task/%d/syscall", tid);
  int fd = ::open(p, O_RDONLY);
  if (fd < 0) return false;  // thread gone
  ssize_t n = ::read(fd, b, sizeof b - 1);
  ::close(fd);
  if (n <= 0) return false;
  b[n] = 0;
  return strncmp(b, "running", 7) == 0;
}
// Confirmation window of the stuck rule (DESIGN §2.6): returns "" when the silence can be
// blamed on the program (every announced thread started; each registered thread is either
// blocked in the kernel or received the CPU time it asked for), otherwise the reason why the
// verdict must be postponed (threads not started yet / threads runnable but starved of CPU).
inline std::string starvation_reason(double window_s = 2.0) {
  uint64_t exp = threads_expected().load(std::memory_order_relaxed);
  uint64_t st = threads_started().load(std::memory_order_relaxed);
  if (st < exp) return fmt("only %lu of %lu announced threads have started", (unsigned long)st, (unsigned long)exp);
  std::vector<SchedSample> v;
  auto* all = thread_states();
  for (int i = 0; i < kMaxThreads; ++i) {
    int tid = all[i].tid.load(std::memory_order_relaxed);
    if (tid != 0) { SchedSample x; x.tid = tid; x.run_ns = thread_run_ns(tid); v.push_back(x); }
  }
  const int kSamples = 40;
  uint64_t dt_us = uint64_t(window_s * 1e6 / kSamples);
  double t0 = now_s();
  for (int k = 0; k < kSamples; ++k) {
    raw_sleep_us(dt_us);
    for (auto& x : v) x.running += thread_in_userspace(x.tid) ? 1 : 0;
  }
  double elapsed = now_s() - t0;
  for (auto& x : v) {
    double wanted = elapsed * double(x.running) / kSamples;            // time spent runnable
    double got = double(thread_run_ns(x.tid) - x.run_ns) * 1e-9;       // CPU time received
    if (wanted > 0.2 && got < 0.4 * wanted)
      return fmt("thread %d was runnable for %.2fs of a %.2fs window but received only %.2fs of CPU (machine overloaded)",
                 x.tid, wanted, elapsed, got);
  }
  return "";
}

struct Watchdog {
  std::thread th;
  std::atomic<bool> stop {false};
  std::atomic<bool> armed {false};
  double grace_s = 10;
  double hard_cap_s = 3000;
  int postponed = 0, max_postpone = 20;
  // Only protocols in which every change of a futex word owes its sleepers a
  // wake (bounded queue, topic) may turn this on; Future's waiter count changes
  // the word legitimately.
  bool changed_word_is_lost_wakeup = false;
  std::string context;  // set by the harness per episode (under ctx_mu)
  std::mutex ctx_mu;
  // returns key prefix ("" = preconditions do not hold => inconclusive)
  std::function<std::string()> classify;
  std::function<std::string()> dump_extra;

  void start() {
    const Args& a = args();
    grace_s = a.thorough ? 30 : 12;
    // the driver's own outer timeouts are 900 s (quick) / 7200 s (thorough) per process
    hard_cap_s = a.thorough ? 6600 : 3000;
    if (a.kv.count("grace")) grace_s = atof(a.kv.at("grace").c_str());
    th = std::thread([this] {
      uint64_t last = progress_counter().load(std::memory_order_relaxed);
      double last_change = now_s(), t_start = now_s();
      while (!stop.load(std::memory_order_relaxed)) {
        raw_sleep_us(100000);
        uint64_t cur = progress_counter().load(std::memory_order_relaxed);
        double t = now_s();
        if (cur != last || !armed.load(std::memory_order_relaxed)) {
          last = cur;
          last_change = t;
          postponed = 0;
        }
        if (t - t_start > hard_cap_s) {
          inconclusive(fmt("hard wall-clock cap %.0fs reached while progress was still moving", hard_cap_s));
          finish_and_exit_now();
        }
        if (t - last_change > grace_s) {
          // postpone the verdict while the silence can be blamed on the machine
          std::string why = starvation_reason();
          if (!why.empty() || progress_counter().load(std::memory_order_relaxed) != last) {
            if (++postponed > max_postpone) {
              inconclusive("no progress, but the stuck rule could not be confirmed: " + why);
              fprintf(stderr, "%s\n", thread_dump().c_str());
              finish_and_exit_now();
            }
            VF_COUNT("watchdog:verdict_postponed");
            last_change = now_s() - grace_s / 2;  // look again after half a grace period
            continue;
          }
          std::string ctx;
          { std::lock_guard<std::mutex> g(ctx_mu); ctx = context; }
          std::string dump = thread_dump();
          bool changed = changed_word_is_lost_wakeup && any_sleeper_with_changed_word();
          std::string key = classify ? classify() : std::string();
          std::string ex = dump_extra ? dump_extra() : std::string();
          std::string detail = "context: " + ctx + "\nno progress for " + fmt("%.1f", t - last_change) +
                               "s\nthreads:\n" + dump + ex;
          if (changed) {
            violation((key.empty() ? std::string("stuck") : key) + ":lost-wakeup",
                      "a thread sleeps in futex_wait although the word no longer holds the value it "
                      "slept on, and nothing made progress for the grace period", detail);
          } else if (!key.empty()) {
            violation(key, "operation never returned although its logical wake condition holds "
                           "(balanced workload, counterparts returned, no progress for the grace period)",
                      detail);
          } else {
            inconclusive("no progress for the grace period but stuck-rule preconditions not established: " + ctx);
            fprintf(stderr, "%s\n", detail.c_str());
          }
          finish_and_exit_now();
        }
      }
    });
  }
  void set_context(const std::string& c) { std::lock_guard<std::mutex> g(ctx_mu); context = c; }
  void arm(bool on) { armed.store(on, std::memory_order_relaxed); }
  void shutdown() {
    stop.store(true, std::memory_order_relaxed);
    if (th.joinable()) th.join();
  }
};
inline Watchdog& watchdog() { static Watchdog* w = new Watchdog; return *w; }

////////////////////////////////////////////////////////////////////////////////
// main() glue
inline void init(int argc, char** argv, const char* property, const char* harness) {
  Args& a = args();
  for (int i = 1; i < argc; ++i) {
    std::string k = argv[i];
    auto val = [&]() -> std::string { return i + 1 < argc ? argv[++i] : ""; };
    if (k == "--seed") a.seed = strtoull(val().c_str(), nullptr, 10);
    else if (k == "--tier") a.thorough = (val() == "thorough");
    else if (k == "--out") a.out = val();
    else if (k == "--replay-dir") a.replay_dir = val();
    else if (k == "--scale") a.scale = atof(val().c_str());
    else if (k == "--mode") a.mode = val();
    else if (k == "--episode") a.only_episode = atol(val().c_str());
    else if (k.rfind("--", 0) == 0) a.kv[k.substr(2)] = val();
  }
  Report& r = report();
  r.property = property;
  r.harness = harness;
  setvbuf(stdout, nullptr, _IOLBF, 0);
  // first initialisation of the monitor's own statics happens here, single-threaded
  (void)thread_states(); (void)my_state(); (void)point_table(); (void)registry(); (void)policy();
  (void)progress_counter(); (void)threads_expected(); (void)threads_started(); (void)watchdog();
  (void)intern("");
  install_hook();
}

// Number of episodes for this run: `quick` or `thorough` base, times --scale.
inline uint64_t budget(uint64_t quick, uint64_t thorough) {
  const Args& a = args();
  if (a.kv.count("episodes")) return uint64_t(atol(a.kv.at("episodes").c_str()));
  double n = double(a.thorough ? thorough : quick) * a.scale;
  return n < 1 ? 1 : uint64_t(n);
}

// Run `n` threads with logical ids 0..n-1 and join them.
template <typename F>
inline void run_threads(int n, uint64_t episode_seed, F&& body) {
  std::vector<std::thread> ts;
  ts.reserve(size_t(n));
  expect_threads(uint64_t(n));
  for (int i = 0; i < n; ++i) {
    ts.emplace_back([&, i] {
      thread_begin(episode_seed, i);
      body(i);
      thread_end();
    });
  }
  for (auto& t : ts) t.join();
}

// Restrict the process to `k` CPUs (oversubscription episodes); 0 = all.
inline void pin_cpus(int k) {
  cpu_set_t set;
  CPU_ZERO(&set);
  int ncpu = int(sysconf(_SC_NPROCESSORS_ONLN));
  if (k <= 0 || k > ncpu) k = ncpu;
  // k consecutive CPUs starting at a per-process offset: concurrently running harness
  // processes (three sanitizer variants, several checks) must not all pile up on CPU 0.
  int first = (k == ncpu) ? 0 : int((uint64_t(getpid()) * 2654435761u >> 7) % uint64_t(ncpu));
  for (int i = 0; i < k; ++i) CPU_SET((first + i) % ncpu, &set);
  sched_setaffinity(0, sizeof set, &set);
}

}  // namespace vf
