// Link-time interposition of syscall(2) as called by babylon's SchedInterface
// (all futex traffic of the library goes through ::syscall(__NR_futex, ...)).
// Gives the monitors: a per-thread "asleep in futex_wait(addr,val)" state for
// the stuck rule, counters of waits that really slept / wakes issued, and a
// schedule point right before a registered waiter enters the kernel (the
// classic lost-wake-up window). Include in exactly one TU of the executable.
#pragma once
#include <errno.h>
#include <linux/futex.h>

#include "common/vf.h"

namespace vf {
inline long raw_syscall6(long n, long a, long b, long c, long d, long e, long f) {
  long ret;
  register long r10 __asm__("r10") = d;
  register long r8 __asm__("r8") = e;
  register long r9 __asm__("r9") = f;
  __asm__ volatile("syscall"
                   : "=a"(ret)
                   : "a"(n), "D"(a), "S"(b), "d"(c), "r"(r10), "r"(r8), "r"(r9)
                   : "rcx", "r11", "memory");
  return ret;
}
}  // namespace vf

// no_sanitize_address: the 6 va_args are read unconditionally (callers of 3-argument syscalls
// pass fewer), which ASan's fake-stack mode can report as a stack-buffer-underflow.
extern "C" __attribute__((no_sanitize_address)) long syscall(long number, ...) noexcept {
  va_list ap;
  va_start(ap, number);
  long a = va_arg(ap, long), b = va_arg(ap, long), c = va_arg(ap, long), d = va_arg(ap, long),
       e = va_arg(ap, long), f = va_arg(ap, long);
  va_end(ap);
  long ret;
  // Re-entrancy guard: libstdc++'s __cxa_guard_acquire waits with syscall(SYS_futex) when the
  // first initialisation of a function-local static is contended; if that static belongs to the
  // monitor itself (vf::thread_states(), a VF_COUNT counter, ...) we would recurse without bound.
  static thread_local bool vf_inside = false;
  if (number == SYS_futex && !vf_inside) {
    struct Scope { Scope() { vf_inside = true; } ~Scope() { vf_inside = false; } } scope;
    int op = int(b) & FUTEX_CMD_MASK;
    auto* st = vf::my_state();
    if (op == FUTEX_WAIT) {
      st->futex_waits.fetch_add(1, std::memory_order_relaxed);
      vf::perturb("futex:before_wait");
      st->futex_val.store(uint32_t(c), std::memory_order_relaxed);
      st->futex_addr.store(reinterpret_cast<uint32_t*>(a), std::memory_order_relaxed);
      ret = vf::raw_syscall6(number, a, b, c, d, e, f);
      st->futex_addr.store(nullptr, std::memory_order_relaxed);
      if (ret == 0) st->futex_slept.fetch_add(1, std::memory_order_relaxed);
      else if (ret == -EAGAIN) st->futex_eagain.fetch_add(1, std::memory_order_relaxed);
      else if (ret == -ETIMEDOUT) st->futex_timedout.fetch_add(1, std::memory_order_relaxed);
    } else if (op == FUTEX_WAKE) {
      vf::perturb("futex:before_wake");
      st->futex_wakes.fetch_add(1, std::memory_order_relaxed);
      ret = vf::raw_syscall6(number, a, b, c, d, e, f);
      if (ret > 0) st->futex_woken.fetch_add(uint64_t(ret), std::memory_order_relaxed);
    } else {
      ret = vf::raw_syscall6(number, a, b, c, d, e, f);
    }
  } else {
    ret = vf::raw_syscall6(number, a, b, c, d, e, f);
  }
  if (ret < 0 && ret > -4096) {
    errno = int(-ret);
    return -1;
  }
  return ret;
}
