// C11 — coverage-guided hostile input (clang libFuzzer, variant `fuzz`).
// One process, all root types of the zoo: input byte 0 selects the root type, byte 1
// the presentation, the rest is handed to the parser. The oracle sits inside the
// target (zoo::hostile_one): parse must return; if it reports success the value
// must serialize to the predicted size and parse back to itself. ASan/UBSan
// reports, aborts, std::terminate, libFuzzer time-outs (-timeout) and OOM
// (-rss_limit_mb) end the process and are turned into violations by vf.py; a
// std::terminate is attributed to (type, presentation) by our own handler first.
//
// VF_USES_PROTO
//
// args: --runs N (default from the tier)  --nolimit 0|1 (stream-backed input without an enclosing limit, default 1)
#include <cxxabi.h>

#include <exception>
#include <typeinfo>

#include "common/vf.h"
// zoo after vf.h
#include "common/c11_zoo.h"

extern "C" int LLVMFuzzerRunDriver(int* argc, char*** argv, int (*UserCb)(const uint8_t* Data, size_t Size));

using namespace zoo;

static std::vector<Pres> g_pres;
// root types offered to the fuzzer. SwissAgg is left to the gcc harness: clang's UBSan
// (pointer-overflow) reports babylon's null-base arithmetic in memory_resource.h:482 on the
// very first SwissMemoryResource allocation — C06's business (DESIGN §4), not the parser's.
static std::vector<int> g_roots;
static uint64_t g_execs = 0, g_accepted = 0;

static int one_input(const uint8_t* data, size_t size) {
  if (size < 2) return 0;
  int idx = g_roots[data[0] % g_roots.size()];
  const Pres& p = g_pres[data[1] % g_pres.size()];
  std::string input(reinterpret_cast<const char*>(data + 2), size - 2);
  ++g_execs;
  with_root(idx, [&]<typename T>(const char* name) {
    bool accepted = hostile_one<T>(name, input, p, 0x5eed);
    g_accepted += accepted ? 1 : 0;
    // evaluations are counted in bulk at the end; distinct accepted inputs are recorded (bounded)
    if (accepted && vf::report().nontrivial.size() < 200000)
      vf::evaluated(vf::mix(0xF022, uint64_t(idx), std::hash<std::string> {}(input)), true);
  });
  return 0;
}

static void on_terminate() {
  Blackbox* b = blackbox();
  std::string tn = "unknown", what;
  if (std::type_info* t = abi::__cxa_current_exception_type()) {
    int st = 0;
    char* d = abi::__cxa_demangle(t->name(), nullptr, nullptr, &st);
    tn = d ? d : t->name();
    free(d);
  }
  try {
    if (auto e = std::current_exception()) std::rethrow_exception(e);
  } catch (const std::exception& ex) {
    what = ex.what();
  } catch (...) {
  }
  std::string input(reinterpret_cast<const char*>(b->input), std::min<size_t>(b->input_len, sizeof b->input));
  vf::violation(vf::fmt("c11:died:fuzz-%s:%s:%s:terminate:%s", b->phase, b->type, b->pres, tn.c_str()),
                "std::terminate inside the serialization code (" + tn + ": " + what + ")",
                vf::fmt("type=%s presentation=%s block=%d input_len=%u\ninput=", b->type, b->pres, b->block, b->input_len) +
                    hex(input, 2048));
  vf::report().evaluations += g_execs;
  vf::finish_and_exit_now();
}

static bool g_nolimit = true;
static void finalize() {
  {
    std::lock_guard<std::mutex> g(vf::report().mu);
    if (g_execs > vf::report().evaluations) vf::report().evaluations = g_execs;
  }
  vf::counter("obs:fuzz_execs").v.fetch_add(g_execs);
  vf::counter("obs:fuzz_accepted").v.fetch_add(g_accepted);
  vf::sample(vf::fmt("{\"phase\": \"fuzz\", \"execs\": %lu, \"accepted_by_parser\": %lu, \"root_types\": %d, "
                     "\"presentations\": %zu, \"nolimit_streams\": %s}", (unsigned long)g_execs, (unsigned long)g_accepted,
                     int(g_roots.size()), g_pres.size(), g_nolimit ? "true" : "false"));
  vf::finish();
}

int main(int argc, char** argv) {
  vf::init(argc, argv, "C11", "fuzz_c11");
  auto& a = vf::args();
  a.variant = "fuzz";
  bool nolimit = a.get("nolimit", 1) != 0;
  for (const Pres& p : presentations())
    if (p.kind != P_STRING && (nolimit || p.kind != P_STREAM_NOLIMIT)) g_pres.push_back(p);
  uint64_t runs = a.kv.count("runs") ? uint64_t(a.get("runs", 0)) : vf::budget(150000, 6000000);
  std::set_terminate(on_terminate);

  for (int idx = 0; idx < kRoots; ++idx)
    if (strcmp(root_name(idx), "SwissAgg") != 0) g_roots.push_back(idx);
  // seed corpus: valid encodings of every root type under a few presentations (cwd = run directory)
  ::mkdir("corpus", 0755);
  for (size_t slot = 0; slot < g_roots.size(); ++slot) {
    int idx = g_roots[slot];
    with_root(idx, [&]<typename T>(const char* name) {
      for (int k = 0; k < 3; ++k) {
        Gen g(vf::mix(a.seed, uint64_t(idx), uint64_t(k), 0xF1), 60);
        g.no_empty_fp_vectors = true;
        Holder<T> h;
        gen_root(g, h);
        std::string bytes;
        Serialization::serialize_to_string(h.ref(), bytes);
        if (bytes.size() > 4000) continue;
        std::string file = vf::fmt("corpus/seed-%s-%d", name, k);
        FILE* f = fopen(file.c_str(), "w");
        if (!f) continue;
        fputc(int(slot), f);
        fputc(int(g.r.below(g_pres.size())), f);
        fwrite(bytes.data(), 1, bytes.size(), f);
        fclose(f);
      }
    });
  }

  std::vector<std::string> fargs = {argv[0],
                                    "corpus",
                                    vf::fmt("-runs=%lu", (unsigned long)runs),
                                    vf::fmt("-seed=%lu", (unsigned long)(a.seed % 0xffffffffu + 1)),
                                    "-max_len=4096",
                                    "-timeout=20",
                                    "-rss_limit_mb=3072",
                                    "-malloc_limit_mb=2560",
                                    "-artifact_prefix=./",
                                    "-print_final_stats=1",
                                    "-verbosity=1",
                                    "-len_control=0"};
  std::vector<char*> fargv;
  for (auto& s : fargs) fargv.push_back(const_cast<char*>(s.c_str()));
  fargv.push_back(nullptr);
  int fargc = int(fargs.size());
  char** fargvp = fargv.data();
  // FuzzerDriver ends with exit(0) after -runs executions: the report is written from atexit
  g_nolimit = nolimit;
  atexit(finalize);
  int rc = LLVMFuzzerRunDriver(&fargc, &fargvp, one_input);
  if (rc != 0) vf::inconclusive(vf::fmt("libFuzzer driver returned %d", rc));
  return 0;
}
