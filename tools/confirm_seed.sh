#!/bin/bash
# usage: confirm_seed.sh <seed worktree dir> <k> <property id> <name under /verif/seeded>
# Lead-side confirmation of a seeded change in its scratch worktree: the patch applies and
# compiles, the repository's unedited test suite passes with it, the demonstration fails with
# it and passes without it. Writes /verif/seeded/<name>/{patch.diff,demo*,run.sh,README.md,meta.json}.
set -u
d="$1"; k="$2"; pid="$3"; name="$4"
out="$d/out/$k"; dest="/verif/seeded/$name"
mkdir -p "$dest"
log="$dest/confirm.log"; : > "$log"
say() { echo "$@" | tee -a "$log"; }
cd "$d" || exit 2
git checkout -- src 2>/dev/null
git apply "$out/patch.diff" || { say "PATCH DOES NOT APPLY"; exit 2; }
build() { for i in 1 2 3; do seedns "$d" ninja -C /seedwt/_build -j${JOBS:-8} >/tmp/lead/confirm_build.$$.log 2>&1 && return 0; done; return 1; }
build || { say "BUILD FAILED with patch"; git checkout -- src; exit 2; }
say "build with patch: ok"
t=$(seedns "$d" ctest --test-dir /seedwt/_build -j6 --timeout 900 2>&1 | tail -15)
summary=$(echo "$t" | grep -E "tests passed|tests failed" | head -1)
failed=$(echo "$t" | grep -E "^\s+[0-9]+ - " | sed 's/^\s*[0-9]* - //; s/ (.*//' | tr '\n' ' ')
say "ctest with patch: $summary ; failed: $failed"
still=""
for f in $failed; do
  ok=0
  for i in 1 2 3; do seedns "$d" ctest --test-dir /seedwt/_build -R "^$f\$" --timeout 900 >/dev/null 2>&1 && { ok=1; break; }; done
  [ $ok = 1 ] || still="$still $f"
done
say "failed again when re-run alone (3 tries):${still:- none}"
# demonstration with the patch
# a run counts as failed if run.sh exits non-zero OR reports failed runs / a sanitizer report in its output
sig() { grep -Eq "failed=[1-9]|failed_runs=[1-9]|[1-9][0-9]* of [0-9]+ runs failed|(^|[^A-Za-z])FAIL([^A-Za-z]|$)|VIOLATION|ERROR: AddressSanitizer|WARNING: ThreadSanitizer|HANG|hung|DEADLOCK" "$1" && echo 1 || echo 0; }
withrc=""; for i in 1 2; do (cd "$out" && timeout 1800 bash ./run.sh >"$log.demo_with.$i" 2>&1); rc=$?; [ $rc = 0 ] && [ "$(sig "$log.demo_with.$i")" = 1 ] && rc=1000; withrc="$withrc $rc"; cat "$log.demo_with.$i" >> "$log.demo_with"; rm -f "$log.demo_with.$i"; done
say "demo WITH patch, 2 runs, exit codes (1000 = exit 0 but failures reported in output):$withrc"
git checkout -- src
# without the patch only the library has to be current for the demonstration (the test binaries are not used)
buildlib() { for i in 1 2 3; do seedns "$d" ninja -C /seedwt/_build -j${JOBS:-8} babylon >/tmp/lead/confirm_build.$$.log 2>&1 && return 0; done; return 1; }
buildlib || { say "BUILD FAILED after revert"; exit 2; }
worc=""; for i in 1 2; do (cd "$out" && timeout 1800 bash ./run.sh >"$log.demo_without.$i" 2>&1); rc=$?; [ $rc = 0 ] && [ "$(sig "$log.demo_without.$i")" = 1 ] && rc=1000; worc="$worc $rc"; cat "$log.demo_without.$i" >> "$log.demo_without"; rm -f "$log.demo_without.$i"; done
say "demo WITHOUT patch, 2 runs, exit codes:$worc"
cp "$out"/patch.diff "$out"/README.md "$out"/run.sh "$dest"/ 2>/dev/null
cp "$out"/demo* "$out"/*.cpp "$out"/*.cc "$dest"/ 2>/dev/null
rm -f "$dest"/demo  # binaries are not kept
python3 - "$dest" "$pid" "$name" "$summary" "$still" "$withrc" "$worc" <<'EOF'
import json, sys
dest, pid, name, summary, still, withrc, worc = sys.argv[1:8]
w = [int(x) for x in withrc.split()]; wo = [int(x) for x in worc.split()]
readme = open(dest + "/README.md").read() if __import__("os").path.exists(dest + "/README.md") else ""
meta = {"property": pid, "name": name,
        "needs_to_manifest": "see README.md (written by the independent seeding agent)",
        "confirmed_by_lead": {
            "compiles_and_suite_passes_with_patch": summary.strip() + ((" ; still failing alone: " + still) if still.strip() else " (failures, if any, passed when re-run alone: load-dependent tests)"),
            "demo_with_patch_exit_codes": w, "demo_without_patch_exit_codes": wo,
            "demo_discriminates": any(x != 0 for x in w) and all(x == 0 for x in wo)},
        "checks_run": []}
json.dump(meta, open(dest + "/meta.json", "w"), indent=1)
print(json.dumps(meta["confirmed_by_lead"]))
EOF
