#!/usr/bin/env python3
"""Regenerates /verif/MANIFEST.json from /verif/checks/<ID>.py and not_applicable.json."""
import json
import os
import subprocess
import sys

VERIF = os.path.dirname(os.path.dirname(os.path.abspath(__file__)))
sys.path.insert(0, VERIF)
from checks import CHECKS  # noqa: E402

props = [json.loads(l)["id"] for l in open(os.path.join(VERIF, "properties.jsonl"))]
na_file = os.path.join(VERIF, "not_applicable.json")
na = json.load(open(na_file)) if os.path.exists(na_file) else {}
hooks = subprocess.run(["git", "-C", "/repo", "log", "--format=%H %s"], capture_output=True, text=True).stdout
hook_commits = [l.split()[0] for l in hooks.splitlines() if l.split(" ", 1)[1].startswith("verif:")]
m = {
    "version": 1,
    "setup_cmd": "python3 /verif/vf.py build",
    "hooks": {
        "guard": "BABYLON_VERIF",
        "enable": "-DBABYLON_VERIF=1 on every translation unit (set by /verif/cmake/CMakeLists.txt); the harness "
                  "assigns babylon::verif::point_hook",
        "baseline_off_cmd": "cmake -G Ninja -S /repo -B /repo/_build -DCMAKE_BUILD_TYPE=RelWithDebInfo "
                            "-DBUILD_TESTING=ON -DCMAKE_CXX_FLAGS=-Wno-error >/dev/null && cmake --build /repo/_build "
                            "&& ctest --test-dir /repo/_build -j8 --timeout 900",
        "source_commits": hook_commits[::-1],
        "add_only": True,
    },
    "engines": [{"name": "vf", "path": "/verif/vf.py",
                 "serves_properties": sorted(set(CHECKS) & set(open(os.path.join(VERIF, "claimed.txt")).read().split())),
                 "kind_free_text": "runtime monitoring: seeded stress/perturbation harnesses built against the current "
                                   "/repo tree under gcc TSan, ASan+UBSan(+LSan) and plain -O2, with online shadow-state "
                                   "assertions and offline history checkers"}],
    "checks": [],
    "not_applicable": [],
    "notes": "Exit codes: 0 held on what was observed, 1 violation (VIOLATION line), 2 inconclusive / harness failure. "
             "Known genuine defects are listed in /verif/known_findings.json.",
}
# only checks the lead has validated (silent soak on the unchanged tree) are claimed
claimed = set(open(os.path.join(VERIF, "claimed.txt")).read().split())
for pid in props:
    if pid in CHECKS and pid in claimed:
        c = CHECKS[pid]
        m["checks"].append({
            "property_id": pid,
            "quick_cmd": "python3 /verif/vf.py check %s --tier quick" % pid,
            "thorough_cmd": "python3 /verif/vf.py check %s --tier thorough" % pid,
            "evidence_file": "/verif/evidence/%s.json" % pid,
            "replay_cmd_template": "python3 /verif/vf.py replay {path}",
            "engine": "vf",
            "level_claimed": {"category": c.get("level", "exploration"), "text": c["level_text"],
                              "design_ref": c.get("design_ref", "DESIGN.md §5 " + pid)},
            "level_note": c["level_note"],
            "technique": c["technique"],
        })
    else:
        m["not_applicable"].append({"property_id": pid,
                                    "reason": na.get(pid, "check not built yet (work in progress); not claimed")})
json.dump(m, open(os.path.join(VERIF, "MANIFEST.json"), "w"), indent=1)
print("MANIFEST.json: %d checks, %d not claimed" % (len(m["checks"]), len(m["not_applicable"])))
