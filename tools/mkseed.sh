#!/bin/bash
# usage: mkseed.sh <name>      -> creates /tmp/seed-<name>: a detached git worktree of /repo HEAD
# with a pre-built copy of the template build directory (usable through `seedns`, which
# bind-mounts the worktree at /seedwt in a private mount namespace).
# Template: /tmp/seedbase/wt (+ _build), created once per session by tools/mkseedbase.sh.
set -e
n="$1"; d="/tmp/seed-$n"
[ -e "$d" ] && { echo "$d exists"; exit 1; }
git -C /repo worktree add --detach "$d" HEAD >/dev/null 2>&1
# sources older than the template's objects, so ninja rebuilds only what gets edited
find "$d" -path "$d/.git" -prune -o -type f -exec touch -d '2020-01-01 00:00:00' {} +
cp -a /tmp/seedbase/wt/_build "$d/_build"
mkdir -p "$d/out"
echo "$d"
