#!/bin/bash
# Creates the seeding template once per session: /tmp/seedbase/wt = worktree of /repo HEAD with
# a complete baseline build (library + all tests, guard off) at /seedwt/_build.
set -e
mkdir -p /seedwt /tmp/seedbase
cat > /usr/local/bin/seedns <<'EOF'
#!/bin/sh
# usage: seedns <worktree-dir> <command...>
# Runs the command in a private mount namespace where <worktree-dir> is visible as
# /seedwt (so a pre-built _build directory with absolute paths can be reused).
d="$1"; shift
exec unshare -m sh -c 'mount --bind "$0" /seedwt && cd /seedwt && exec "$@"' "$d" "$@"
EOF
chmod +x /usr/local/bin/seedns
[ -e /tmp/seedbase/wt ] || git -C /repo worktree add --detach /tmp/seedbase/wt HEAD
find /tmp/seedbase/wt -path /tmp/seedbase/wt/.git -prune -o -path /tmp/seedbase/wt/_build -prune -o -type f -exec touch -d '2020-01-01 00:00:00' {} +
seedns /tmp/seedbase/wt sh -c 'cmake -G Ninja -S /seedwt -B /seedwt/_build -DCMAKE_BUILD_TYPE=RelWithDebInfo -DBUILD_TESTING=ON -DCMAKE_CXX_FLAGS=-Wno-error && ninja -C /seedwt/_build -j${JOBS:-8}'
