#!/usr/bin/env python3
"""usage: mkseedtask.py <property id> <seed name> [extra hint]
Writes /tmp/seed-<name>/TASK.md: the task of an independent 'seeding' agent — only the text of the
property and the mechanics of its scratch worktree, nothing about /verif's checks."""
import json
import sys

pid, name = sys.argv[1], sys.argv[2]
hint = sys.argv[3] if len(sys.argv) > 3 else ""
prop = None
for l in open("/verif/properties.jsonl"):
    p = json.loads(l)
    if p["id"] == pid:
        prop = p
d = "/tmp/seed-" + name
a = prop["anchors"]
text = f"""# Task: seed a realistic property-breaking change into baidu/babylon

You work ONLY inside the scratch git worktree `{d}` (a checkout of baidu/babylon, a C++
foundation library). Do not read or write `/verif` or `/repo` (your result must be independent
of any existing verification machinery), do not commit, do not use the network (there is none).

## The property (this is all you are given)

**{prop['id']} — {prop['title']}**

Statement: {prop['statement']}

Holds: {prop['quantifier']['text']}

Why the existing unit tests cannot settle it: {prop['why_tests_cant']}

Anchored in: {', '.join(a.get('files', []))}
Mechanisms: {'; '.join(m['name'] + ' (' + m['where'] + ')' for m in a.get('mechanism', []))}

## What to produce

A change to the library sources under `{d}/src/babylon/` that **breaks this property** while
* still compiling,
* still passing the repository's existing test suite (unedited), and
* needing something *specific* to manifest — a particular interleaving, a fault or delay at a
  particular point, a multi-step sequence of operations, an unusual input/configuration, or two
  cooperating sites that each look fine alone. NOT a change that ordinary use or the existing
  tests would expose at once. It should look like a plausible maintenance/refactoring/optimisation
  mistake (a weakened memory order on a non-fence path, a dropped wake-up in one branch, an
  off-by-one at a boundary, a CAS replaced by a store, a skipped re-check, a wrong order of two
  publishes, a forgotten release in an error path, …), a few lines at most.
Plus a **demonstration**: a small standalone program (preferred) or an added gtest file that
fails (wrong result / assertion / sanitizer report / hang detected by its own timeout) WITH the
change and passes WITHOUT it. The demonstration may use sleeps, many iterations, thread
pinning or its own helper hooks to reach the needed interleaving, but it must use the library
only through its public API and be honest: say how often it fails (e.g. 20/20 runs, or 3/10).
{('Hint from the requester: ' + hint) if hint else ''}
Produce TWO independent changes if you can (different mechanisms / different code sites):
`out/1/` and `out/2/`. One solid change is better than two weak ones.

Lines of the form `BABYLON_VERIF_POINT("...");` in the sources are inert instrumentation
(compiled out): leave them exactly as they are (do not delete, move or add them).

## Mechanics (important — the machine is shared, full builds are expensive)

`{d}/_build` is a complete, up-to-date build of the library and all tests, but it only works
when the worktree is visible at the path `/seedwt`. The wrapper `seedns` arranges that in a
private mount namespace: **run every build/test command as `seedns {d} <command>`** and refer to
files as `/seedwt/...` inside such commands (edit files normally under `{d}/...`).
* incremental rebuild after an edit (library + affected tests only):
  `seedns {d} ninja -C /seedwt/_build -j6`  (single target: add e.g. `_test_concurrent_test_bounded_queue_cpp`;
  test targets are named `_test_<path with _>_cpp`, list them with `seedns {d} ninja -C /seedwt/_build -t targets all | grep _test_`)
* tests: `seedns {d} ctest --test-dir /seedwt/_build -j6 --timeout 900` (whole suite, ~1 min) or `-R <regex>`.
  A handful of timing-dependent tests are flaky when the machine is loaded; re-run a failure
  alone (`-R name`) before concluding anything. The suite must pass with your change.
* a standalone demo program (library is `/seedwt/_build/libbabylon.a`):
  `seedns {d} g++ -std=gnu++20 -O2 -g -I/seedwt/src -isystem /root/miniconda/include /seedwt/out/1/demo.cpp /seedwt/_build/libbabylon.a -L/root/miniconda/lib -Wl,-rpath,/root/miniconda/lib -labsl_base -labsl_time -labsl_time_zone -labsl_strings -labsl_str_format_internal -labsl_raw_hash_set -labsl_hash -labsl_city -labsl_low_level_hash -labsl_throw_delegate -labsl_int128 -labsl_spinlock_wait -labsl_raw_logging_internal -lprotobuf -lfmt -lpthread -o /seedwt/out/1/demo`
  (header-only parts — everything under `concurrent/`, `future.h`, coroutine headers, serialization,
  `reusable/*.h` — need only the `-labsl_*`/`-lpthread` part; you may add `-fsanitize=thread` or
  `-fsanitize=address` for a demo of a header-only component if the breakage is a race / use-after-free;
  do not rebuild the whole library with sanitizers).
* never start more than one build at a time and keep `-j6`.

## Deliverables (under `{d}/out/<k>/`)

* `patch.diff` — `git -C {d} diff -- src` of that change alone (revert the worktree between
  the two changes: `git -C {d} checkout -- src`; then rebuild);
* `demo.cpp` (or the test file) and `run.sh` (exact build + run commands, using `seedns`);
* `README.md` — what the change is and why it looks innocent; which clause of the property it
  breaks; exactly what is needed for it to manifest; observed results: demo WITH the change
  (N runs, how many failed, typical output), demo WITHOUT it (N runs, all pass), the test
  suite WITH the change (`ctest` summary line; which tests you re-ran).
Leave the worktree with `src` reverted (no uncommitted source changes) when you finish.
Final message: ≤ 15 lines summarising the change(s), where they are, and the observed numbers.
"""
open(d + "/TASK.md", "w").write(text)
print(d + "/TASK.md")
