#!/usr/bin/env python3
"""usage: record_seed_run.py <seeded name> <check id> <tier> <rc> <wall_s> <violation keys / note>
Appends one entry to /verif/seeded/<name>/meta.json: which registered check was run against the change."""
import json, sys, os
name, cid, tier, rc, wall, note = sys.argv[1:7]
p = "/verif/seeded/%s/meta.json" % name
m = json.load(open(p)) if os.path.exists(p) else {"name": name, "checks_run": []}
m.setdefault("checks_run", []).append({"check": cid, "tier": tier, "cmd": "git -C /repo apply patch.diff; python3 /verif/vf.py check %s --tier %s; git -C /repo checkout -- ." % (cid, tier),
                                       "exit_code": int(rc), "caught": int(rc) == 1, "wall_s": float(wall), "reported": note})
json.dump(m, open(p, "w"), indent=1)
print("recorded", name, cid, rc)
