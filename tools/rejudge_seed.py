#!/usr/bin/env python3
"""usage: rejudge_seed.py <name>...   Re-evaluates demo_discriminates of /verif/seeded/<name>/meta.json from the saved
demonstration outputs (confirm.log.demo_with / .demo_without): many run.sh scripts report failing runs in their
output and exit 0."""
import json, re, sys
SIG = re.compile(r"failed=[1-9]|failed_runs=[1-9]|[1-9][0-9]* of [0-9]+ runs failed|(^|[^A-Za-z])FAIL([^A-Za-z]|$)|VIOLATION|ERROR: AddressSanitizer|WARNING: ThreadSanitizer|HANG|hung|DEADLOCK", re.M)
for name in sys.argv[1:]:
    d = "/verif/seeded/%s/" % name
    m = json.load(open(d + "meta.json"))
    w = open(d + "confirm.log.demo_with", errors="replace").read()
    wo = open(d + "confirm.log.demo_without", errors="replace").read()
    c = m["confirmed_by_lead"]
    with_fail = any(x != 0 for x in c["demo_with_patch_exit_codes"]) or bool(SIG.search(w))
    without_fail = any(x not in (0, 143, 144) for x in c["demo_without_patch_exit_codes"]) or bool(SIG.search(wo))
    c["demo_output_reports_failure_with_patch"] = bool(SIG.search(w))
    c["demo_output_reports_failure_without_patch"] = bool(SIG.search(wo))
    c["demo_discriminates"] = with_fail and not without_fail
    json.dump(m, open(d + "meta.json", "w"), indent=1)
    print(name, "with_fail", with_fail, "without_fail", without_fail, "=>", c["demo_discriminates"])
