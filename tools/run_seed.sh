#!/bin/bash
# usage: run_seed.sh <seeded name> [check ids...]   (env: TIER, VERIF_SEED, MUT_BUILD)
# Applies /verif/seeded/<name>/patch.diff to /repo, runs the registered check(s) (default: the
# property the change was seeded for) in the separate mutant build tree, ALWAYS reverts, and
# records exit code / reported keys in /verif/seeded/<name>/meta.json.
set -u
name="$1"; shift
dir="/verif/seeded/$name"
ids="${@:-$(python3 -c "import json;print(json.load(open('$dir/meta.json'))['property'])")}"
export VERIF_BUILD="${MUT_BUILD:-/tmp/lead/mut}"
mkdir -p "$VERIF_BUILD"
cd /repo || exit 2
if ! git diff --quiet; then echo "repo working tree not clean"; exit 2; fi
git apply "$dir/patch.diff" || { echo "patch does not apply"; exit 2; }
trap 'git -C /repo checkout -- . ; echo "[seed] reverted"' EXIT
for id in $ids; do
  t0=$(date +%s)
  out=$(python3 /verif/vf.py check "$id" --tier "${TIER:-quick}" 2>&1); rc=$?
  t1=$(date +%s)
  keys=$(echo "$out" | grep -E "violation in|INCONCLUSIVE|KNOWN-FINDING|BUILD" | sed 's/^\[vf\] //' | cut -c1-220 | head -6 | tr '\n' ';')
  echo "=== $name / $id: rc=$rc wall=$((t1-t0))s $keys"
  python3 /verif/tools/record_seed_run.py "$name" "$id" "${TIER:-quick}" "$rc" "$((t1-t0))" "$keys" >/dev/null
done
