#!/bin/bash
# usage: seed_pipeline.sh confirm|run   (two background loops of the lead)
#  confirm: for every /tmp/seed-<P><x>/out/<k>/patch.diff of a FINISHED agent (marker file out/DONE) that has no
#           /verif/seeded/<P>-<x><k>/meta.json yet: tools/confirm_seed.sh
#  run:     for every /verif/seeded/*/meta.json that is confirmed and has no checks_run yet: tools/run_seed.sh
mode="$1"
while true; do
  did=0
  if [ "$mode" = confirm ]; then
    for p in /tmp/seed-C*/out/*/patch.diff; do
      [ -e "$p" ] || continue
      d=$(echo "$p" | sed 's#/out/.*##'); k=$(basename $(dirname "$p")); tag=$(basename "$d" | sed 's/seed-//')
      [ -e "$d/out/DONE" ] || continue
      pid=$(echo "$tag" | cut -c1-3); x=$(echo "$tag" | cut -c4-)
      name="$pid-$x$k"
      [ -e "/verif/seeded/$name/meta.json" ] && continue
      mkdir "/tmp/lead/lock.$tag" 2>/dev/null || continue    # one confirm at a time per worktree
      ls /verif/seeded/ | grep -q "^$pid-.*-from-$x$k\$" && continue
      echo "$(date +%H:%M) confirm $name"; JOBS=8 /verif/tools/confirm_seed.sh "$d" "$k" "$pid" "$name" 2>&1 | grep -v "^WARNING" | tail -2
      rmdir "/tmp/lead/lock.$tag"
      did=1
    done
  else
    for m in /verif/seeded/*/meta.json; do
      [ -e "$m" ] || continue
      name=$(basename $(dirname "$m"))
      python3 - "$m" <<'PY' || continue
import json,sys
m=json.load(open(sys.argv[1]))
ok = m.get("confirmed_by_lead",{}).get("demo_discriminates") is not None and not m.get("checks_run")
sys.exit(0 if ok else 1)
PY
      echo "$(date +%H:%M) run $name"; /verif/tools/run_seed.sh "$name" 2>&1 | grep -E "^===" 
      did=1
    done
  fi
  [ $did = 0 ] && sleep 60
  [ -e /tmp/lead/STOP_PIPELINE ] && exit 0
done
