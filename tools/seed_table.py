#!/usr/bin/env python3
"""Regenerates the seeded-change table of DESIGN.md §10 (between the seed-table markers) from /verif/seeded/*/meta.json."""
import glob, json, os, re
rows = []
tot = caught_first = caught_after = missed = 0
for d in sorted(glob.glob('/verif/seeded/*/')):
    name = os.path.basename(d.rstrip('/'))
    m = json.load(open(d + 'meta.json'))
    readme = open(d + 'README.md', errors='replace').read() if os.path.exists(d + 'README.md') else ''
    title = ''
    for l in readme.splitlines():
        if l.startswith('#'):
            title = re.sub(r'^(out/\d+|Seed(ed)?( change)?\s*[\w/ ]*?\d+|C\d+ seed(ed change)? \d+|C\d+a?/\d+)\s*[—-]+\s*', '', l.lstrip('# ').strip())
            break
    title = title.replace('|', '/')
    c = m.get('confirmed_by_lead', {})
    runs = m.get('checks_run', [])
    tot += 1
    cells = []
    for r in runs:
        keys = re.findall(r'key=([^ ;]+)', r.get('reported', ''))
        keys = list(dict.fromkeys(keys))[:3]
        what = ('caught: ' + ', '.join('`%s`' % k for k in keys)) if r['exit_code'] == 1 else ('**missed**' if r['exit_code'] == 0 else 'inconclusive (exit %d)' % r['exit_code'])
        cells.append('%s %s: %s' % (r['check'], r['tier'], what))
    first = runs[0]['exit_code'] if runs else None
    any_caught = any(r['exit_code'] == 1 for r in runs)
    if first == 1: caught_first += 1
    elif any_caught: caught_after += 1
    elif runs: missed += 1
    conf = 'yes' if c.get('demo_discriminates') else 'NO'
    rows.append('| `%s` | %s | %s | %s |' % (name, title, conf, '<br>'.join(cells) if cells else 'not run yet'))
head = ('| seeded change | what it is (the agent\'s README has what it needs to manifest) | confirmed (suite passes, demo fails with / passes without) | registered check(s) run against it, in order |\n|---|---|---|---|\n')
summary = ('\n%d confirmed changes; %d caught by the check as it stood when the change arrived, %d caught only after the check was '
           'strengthened (the first run listed is the miss, the later one the re-run), %d not caught.\n' % (tot, caught_first, caught_after, missed))
table = head + '\n'.join(rows) + '\n' + summary
p = '/verif/DESIGN.md'
s = open(p).read()
b, e = '<!-- seed-table-begin -->', '<!-- seed-table-end -->'
if b in s:
    s = s[:s.index(b) + len(b)] + '\n' + table + s[s.index(e):]
    open(p, 'w').write(s)
print(summary)
