#!/bin/bash
# usage: soak.sh <ID> [seeds...]  — the check must be silent on the unchanged tree
id="$1"; shift
seeds="${@:-1 2 3 7 12345}"
for s in $seeds; do
  out=$(VERIF_SEED=$s python3 /verif/vf.py check "$id" --tier "${TIER:-quick}" 2>&1); rc=$?
  echo "$id seed=$s rc=$rc $(echo "$out" | grep -E 'held on|VIOLATION|INCONCLUSIVE|KNOWN' | head -3 | cut -c1-300)"
done
