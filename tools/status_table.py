#!/usr/bin/env python3
"""Regenerates the status table of DESIGN.md §9 (between the status-table markers) from checks/ and evidence/."""
import json, sys
sys.path.insert(0, '/verif')
from checks import CHECKS
rows = []
for pid in sorted(CHECKS):
    c = CHECKS[pid]
    ev = json.load(open('/verif/evidence/%s.json' % pid))
    runs = c['runs']
    hs = ", ".join("`%s`" % h for h in sorted(set(r['harness'] for r in runs)))
    vs = "/".join(v for v in ("tsan", "asan", "plain", "fuzz") if any(r['variant'] == v for r in runs))
    modes = ", ".join(sorted(set(r.get('mode', '') for r in runs if r.get('mode')))) or "—"
    cov = ev['coverage']
    rows.append("| %s | %s | %s | %s | %s | %d | %d | %.0f s |" % (pid, hs, vs, modes, ev['tier'], cov['evaluations'], cov['distinct_nontrivial'], ev['wall_s']))
table = ("| id | harness | variants | modes (own processes) | tier | evaluations | distinct non-trivial | wall |\n|---|---|---|---|---|---|---|---|\n" + "\n".join(rows) + "\n")
p = '/verif/DESIGN.md'
s = open(p).read()
b, e = '<!-- status-table-begin -->', '<!-- status-table-end -->'
s = s[:s.index(b) + len(b)] + '\n' + table + s[s.index(e):]
open(p, 'w').write(s)
print(table)
