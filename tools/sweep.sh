#!/bin/bash
# usage: sweep.sh <seed> [ids...]  — runs the registered quick commands one after another, logs rc + wall
seed="${1:-1}"; shift
ids="${@:-$(cat /verif/claimed.txt)}"
for id in $ids; do
  t0=$(date +%s)
  out=$(VERIF_SEED=$seed python3 /verif/vf.py check "$id" --tier "${TIER:-quick}" 2>&1); rc=$?
  t1=$(date +%s)
  echo "$id seed=$seed rc=$rc wall=$((t1-t0))s $(echo "$out" | grep -E 'held on|VIOLATION|INCONCLUSIVE|KNOWN|violation in' | head -4 | cut -c1-260 | tr '\n' '|')"
done
