#!/bin/bash
# usage: try_mutant.sh <patch.diff> <ID> [<ID> ...]   (env: VERIF_SEED, TIER, MUT_BUILD)
# Applies a patch to /repo's working tree, runs the checks, and ALWAYS reverts.
# Builds in a separate build tree (MUT_BUILD, default /tmp/lead/mut) so that the registered
# build tree /verif/.build (also used as prebuilt library by development agents) never
# contains a mutant. The checks themselves are the registered commands' code (vf.py check).
set -u
patch="$1"; shift
export VERIF_BUILD="${MUT_BUILD:-/tmp/lead/mut}"
mkdir -p "$VERIF_BUILD"
cd /repo || exit 2
if ! git diff --quiet; then echo "repo working tree not clean"; exit 2; fi
git apply "$patch" || { echo "patch does not apply"; exit 2; }
trap 'git -C /repo checkout -- . ; echo "[mutant] reverted"' EXIT
for id in "$@"; do
  echo "=== $id on mutant $(basename $(dirname $patch))/$(basename $patch)"
  python3 /verif/vf.py check "$id" --tier "${TIER:-quick}" 2>&1 | grep -E "VIOLATION|KNOWN|held on|INCONCLUSIVE|violation in|BUILD" | cut -c1-400
  echo "rc=${PIPESTATUS[0]}"
done
