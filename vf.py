#!/usr/bin/env python3
"""Driver of the babylon runtime-monitoring checks (see DESIGN.md §2).

  vf.py build [variant ...]              build libbabylon + harnesses from /repo's working tree
  vf.py check <ID> [--tier quick|thorough] [--seed N]
  vf.py replay <witness.json>
  vf.py list

Exit codes of `check`: 0 held on what was observed, 1 violation (prints
`VIOLATION property=<id> replay=<path>`), 2 inconclusive / harness failure.
"""
import concurrent.futures
import fcntl
import glob
import hashlib
import json
import os
import re
import shutil
import signal
import subprocess
import sys
import time

VERIF = os.path.dirname(os.path.abspath(__file__))
REPO = os.environ.get("VERIF_REPO", "/repo")
BUILD = os.environ.get("VERIF_BUILD", os.path.join(VERIF, ".build"))
sys.path.insert(0, VERIF)
from checks import CHECKS  # noqa: E402

VARIANT_COMPILER = {"tsan": "g++", "asan": "g++", "plain": "g++", "fuzz": "clang++-14"}


def log(*a):
    print("[vf]", *a, file=sys.stderr, flush=True)


# ----------------------------------------------------------------------------- build
def build(variant, targets):
    """Incremental build of `targets` for `variant` from /repo's current tree."""
    bdir = os.path.join(BUILD, variant)
    os.makedirs(bdir, exist_ok=True)
    lock = open(os.path.join(BUILD, variant + ".lock"), "w")
    fcntl.flock(lock, fcntl.LOCK_EX)
    try:
        t0 = time.time()
        if not os.path.exists(os.path.join(bdir, "build.ninja")):
            cmd = ["cmake", "-G", "Ninja", "-S", os.path.join(VERIF, "cmake"), "-B", bdir,
                   "-DCMAKE_BUILD_TYPE=None", "-DREPO=" + REPO, "-DVF_VARIANT=" + variant,
                   "-DCMAKE_CXX_COMPILER=" + VARIANT_COMPILER[variant],
                   "-DCMAKE_PREFIX_PATH=/root/miniconda"]
            pre = os.environ.get("VERIF_PREBUILT")  # development only (scratch clones)
            if pre:
                cmd.append("-DVF_PREBUILT_LIB=" + os.path.join(pre, variant, "libbabylon.a"))
            r = subprocess.run(cmd, stdout=subprocess.PIPE, stderr=subprocess.STDOUT, text=True)
            if r.returncode != 0:
                log("cmake configure failed for", variant)
                sys.stderr.write(r.stdout[-4000:])
                return False
        if os.environ.get("VERIF_PREBUILT"):
            targets = [t for t in targets if t != "babylon"]
        jobs = ["-j" + os.environ["VERIF_NINJA_JOBS"]] if os.environ.get("VERIF_NINJA_JOBS") else []
        r = subprocess.run(["ninja", "-C", bdir] + jobs + list(targets), stdout=subprocess.PIPE,
                           stderr=subprocess.STDOUT, text=True)
        if r.returncode != 0:
            log("build failed for", variant, targets)
            sys.stderr.write(r.stdout[-8000:])
            return False
        dt = time.time() - t0
        if dt > 2:
            log("built %s %s in %.0fs" % (variant, " ".join(targets), dt))
        return True
    finally:
        fcntl.flock(lock, fcntl.LOCK_UN)
        lock.close()


def all_targets(variant):
    pat = "fuzz_*.cpp" if variant == "fuzz" else "c*.cpp"
    return sorted(os.path.splitext(os.path.basename(p))[0]
                  for p in glob.glob(os.path.join(VERIF, "harness", pat)))


# ----------------------------------------------------------------------------- sanitizer reports
FRAME_RE = re.compile(r"^\s*#(\d+)\s+(?:0x[0-9a-f]+\s+in\s+)?(.+?)\s+(\S+?):(\d+)(?::\d+)?(?:\s+\(.*\))?$")
FRAME_RE2 = re.compile(r"^\s*#(\d+)\s+(?:0x[0-9a-f]+\s+in\s+)?(.+?)\s+\((\S+?)\+0x[0-9a-f]+\)")


def strip_templates(fn):
    out, depth = [], 0
    for ch in fn:
        if ch == "<":
            depth += 1
        elif ch == ">":
            depth = max(0, depth - 1)
        elif depth == 0:
            out.append(ch)
    s = "".join(out)
    s = re.sub(r"\(.*", "", s)          # drop the argument list
    s = re.sub(r"\[clone.*", "", s)
    s = re.sub(r"\{lambda.*", "lambda", s)
    return s.strip().split(" ")[-1]


def parse_sanitizer_log(text):
    """-> list of (kind, key, excerpt). Key = kind + babylon frames of the first two
    stacks with line numbers, addresses and template arguments stripped."""
    reports = []
    blocks = re.split(r"(?m)^(?==+\d*=*\s*(?:WARNING|ERROR): (?:ThreadSanitizer|AddressSanitizer|LeakSanitizer))", text)
    for b in blocks:
        m = re.search(r"(WARNING|ERROR): (ThreadSanitizer|AddressSanitizer|LeakSanitizer): ([^\n(]+)", b)
        if not m:
            continue
        tool = {"ThreadSanitizer": "tsan", "AddressSanitizer": "asan", "LeakSanitizer": "lsan"}[m.group(2)]
        kind = m.group(3).strip().split(" on address")[0].split(" on unknown")[0]
        kind = re.sub(r"\s+", "-", kind.strip(": "))
        stacks, cur = [], None
        for line in b.splitlines():
            fm = FRAME_RE.match(line) or FRAME_RE2.match(line)
            if fm:
                if fm.group(1) == "0" or cur is None:
                    cur = []
                    stacks.append(cur)
                cur.append(strip_templates(fm.group(2)))
            elif not line.strip():
                cur = None
        frames = []
        for st in stacks[:2]:
            bab = [f for f in st if "babylon" in f or f.startswith("vf") or "Harness" in f]
            bab = [f for f in bab if "vf::run_threads" not in f][:2]
            frames.append("/".join(bab) if bab else (st[0] if st else "?"))
        key = "%s:%s:%s" % (tool, kind, "|".join(sorted(set(frames))))
        reports.append((tool, key, b[:6000]))
    for m in re.finditer(r"(?m)^(\S+?):(\d+):(\d+): runtime error: (.+)$", text):
        f = os.path.basename(m.group(1))
        msg = re.sub(r"0x[0-9a-f]+", "ADDR", m.group(4))
        msg = re.sub(r"\d+", "N", msg)
        key = "ubsan:%s:%s" % (f, msg[:80])
        reports.append(("ubsan", key, text[m.start():m.start() + 3000]))
    return reports


# ----------------------------------------------------------------------------- known findings
def load_known():
    p = os.path.join(VERIF, "known_findings.json")
    if not os.path.exists(p):
        return []
    return json.load(open(p)).get("findings", [])


def match_known(known, pid, key):
    for k in known:
        if k.get("property") == pid and k.get("status") == "known" and re.search(k["match"], key):
            return k
    return None


# ----------------------------------------------------------------------------- one harness process
def sanitizer_env(variant, rundir, run):
    env = dict(os.environ)
    env.pop("LD_PRELOAD", None)
    supp = os.path.join(VERIF, "sanitizers")
    if variant == "tsan":
        env["TSAN_OPTIONS"] = ("halt_on_error=1 exitcode=66 second_deadlock_stack=1 history_size=5 "
                               "report_signal_unsafe=0 report_thread_leaks=0 log_path=%s/san suppressions=%s/tsan.supp %s"
                               % (rundir, supp, run.get("tsan_options", "")))
    elif variant in ("asan", "fuzz"):
        env["ASAN_OPTIONS"] = ("abort_on_error=0 halt_on_error=1 exitcode=67 detect_leaks=%d "
                               "detect_stack_use_after_return=1 strict_string_checks=1 "
                               "allocator_may_return_null=1 log_path=%s/san %s"
                               % (1 if run.get("leaks", True) else 0, rundir, run.get("asan_options", "")))
        env["UBSAN_OPTIONS"] = "print_stacktrace=1 halt_on_error=1 exitcode=68 log_path=%s/san" % rundir
        env["LSAN_OPTIONS"] = "suppressions=%s/lsan.supp print_suppressions=0 exitcode=69" % supp
    return env


def run_one(pid, run, tier, seed, outdir, attempt=0):
    variant = run["variant"]
    name = "%s-%s%s" % (run["harness"], variant, ("-" + run["mode"]) if run.get("mode") else "")
    rundir = os.path.join(outdir, name + ("-retry%d" % attempt if attempt else ""))
    shutil.rmtree(rundir, ignore_errors=True)
    os.makedirs(rundir)
    exe = os.path.join(BUILD, variant, run["harness"])
    out_json = os.path.join(rundir, "report.json")
    scale = run.get("scale_" + tier, run.get("scale", 1.0))
    cmd = [exe, "--seed", str(seed), "--tier", tier, "--out", out_json, "--replay-dir",
           os.path.join(VERIF, "replays", pid), "--scale", str(scale)]
    if run.get("mode"):
        cmd += ["--mode", run["mode"]]
    cmd += run.get("args", [])
    cmd += run.get("args_" + tier, [])
    timeout = run.get("timeout_" + tier, 900 if tier == "quick" else 7200)
    env = sanitizer_env(variant, rundir, run)
    t0 = time.time()
    res = {"name": name, "variant": variant, "cmd": " ".join(cmd), "violations": [], "inconclusive": [],
           "report": None, "rundir": rundir}
    with open(os.path.join(rundir, "stdout.txt"), "w") as so, open(os.path.join(rundir, "stderr.txt"), "w") as se:
        p = subprocess.Popen(cmd, stdout=so, stderr=se, env=env, cwd=rundir, start_new_session=True)
        try:
            rc = p.wait(timeout=timeout)
        except subprocess.TimeoutExpired:
            os.killpg(p.pid, signal.SIGKILL)
            p.wait()
            rc = None
    res["wall_s"] = time.time() - t0
    res["rc"] = rc
    stderr_txt = open(os.path.join(rundir, "stderr.txt"), errors="replace").read()
    san_txt = ""
    for f in sorted(glob.glob(os.path.join(rundir, "san.*"))):
        san_txt += open(f, errors="replace").read() + "\n"
    san_all = san_txt + "\n" + stderr_txt
    if os.path.exists(out_json):
        try:
            res["report"] = json.load(open(out_json))
        except Exception as e:  # truncated report
            res["inconclusive"].append("unreadable harness report: %s" % e)
    rep = res["report"]
    if rep:
        for v in rep.get("violations", []):
            res["violations"].append({"key": v["key"], "msg": v["msg"], "witness": v.get("witness", "")})
        res["inconclusive"] += rep.get("inconclusive", [])
    sreports = parse_sanitizer_log(san_all)
    for tool, key, excerpt in sreports:
        wdir = os.path.join(VERIF, "replays", pid)
        os.makedirs(wdir, exist_ok=True)
        w = os.path.join(wdir, "%s-%s-s%d-%s.json" % (pid, variant, seed,
                                                      hashlib.sha1(key.encode()).hexdigest()[:10]))
        json.dump({"property": pid, "harness": run["harness"], "variant": variant, "seed": seed, "tier": tier,
                   "mode": run.get("mode", ""), "key": key, "message": "sanitizer report", "detail": excerpt,
                   "cmd": res["cmd"]}, open(w, "w"), indent=1)
        res["violations"].append({"key": key, "msg": "sanitizer report (%s)" % tool, "witness": w})
    if rc is None:
        res["inconclusive"].append("outer wall-clock timeout (%ds) of %s" % (timeout, name))
    elif rc < 0 or rc in (134, 139) or (rc not in (0, 3, 4) and not sreports):
        # crash / abort / terminate without a sanitizer report
        sig = -rc if rc < 0 else rc
        tail = stderr_txt[-3000:]
        m = re.search(r"(terminate called[^\n]*|Assertion[^\n]*failed[^\n]*|what\(\):[^\n]*)", tail)
        what = re.sub(r"0x[0-9a-f]+", "ADDR", m.group(1))[:100] if m else ""
        key = "crash:%s:rc%s:%s" % (name, sig, what)
        wdir = os.path.join(VERIF, "replays", pid)
        os.makedirs(wdir, exist_ok=True)
        w = os.path.join(wdir, "%s-%s-s%d-crash-%s.json" % (pid, variant, seed,
                                                           hashlib.sha1(key.encode()).hexdigest()[:10]))
        json.dump({"property": pid, "harness": run["harness"], "variant": variant, "seed": seed, "tier": tier,
                   "mode": run.get("mode", ""), "key": key, "message": "harness process died", "detail": tail,
                   "cmd": res["cmd"]}, open(w, "w"), indent=1)
        res["violations"].append({"key": key, "msg": "process died rc=%s %s" % (rc, what), "witness": w})
    elif rc in (0, 3, 4) and rep is None:
        res["inconclusive"].append("harness %s produced no report (rc=%s)" % (name, rc))
    return res


# ----------------------------------------------------------------------------- check
def check(pid, tier, seed, jobs=None):
    t0 = time.time()
    spec = CHECKS[pid]
    runs = [r for r in spec["runs"] if tier in r.get("tiers", ("quick", "thorough"))]
    need = {}
    for r in runs:
        need.setdefault(r["variant"], set()).add(r["harness"])
    for variant, targets in need.items():
        if not build(variant, sorted(targets)):
            log("BUILD FAILED: inconclusive")
            return 2
    outdir = os.path.join(BUILD, "runs", pid)
    os.makedirs(outdir, exist_ok=True)
    results = []
    par = jobs or spec.get("parallel", 3)
    with concurrent.futures.ThreadPoolExecutor(max_workers=par) as ex:
        futs = [ex.submit(run_one, pid, r, tier, seed, outdir) for r in runs]
        for f, r in zip(futs, runs):
            res = f.result()
            if res["inconclusive"] and not res["violations"]:
                log("inconclusive (%s): %s -- re-running once" % (res["name"], res["inconclusive"][:2]))
                res2 = run_one(pid, r, tier, seed, outdir, attempt=1)
                if not res2["inconclusive"] or res2["violations"]:
                    res2["notes_retry"] = res["inconclusive"]
                    res = res2
            results.append(res)
    known = load_known()
    violations, known_hits, inconclusive = [], [], []
    for res in results:
        inconclusive += [(res["name"], i) for i in res["inconclusive"]]
        for v in res["violations"]:
            k = match_known(known, pid, v["key"])
            (known_hits if k else violations).append((res["name"], v, k))
    # ---- evidence
    cov = {"evaluations": 0, "distinct_nontrivial": 0, "rule": spec["rule"], "samples": [],
           "runs": [], "counters": {}, "futex": {}, "shortfalls": [], "notes": []}
    for res in results:
        rep = res["report"] or {}
        cov["evaluations"] += int(rep.get("evaluations", 0))
        cov["distinct_nontrivial"] += int(rep.get("distinct_nontrivial", 0))
        for s in rep.get("samples", [])[:2]:
            if len(cov["samples"]) < 6:
                cov["samples"].append({"run": res["name"], "case": s})
        cov["runs"].append({"run": res["name"], "rc": res["rc"], "wall_s": round(res["wall_s"], 1),
                            "evaluations": rep.get("evaluations", 0),
                            "distinct": rep.get("distinct", 0),
                            "distinct_nontrivial": rep.get("distinct_nontrivial", 0),
                            "extra": rep.get("extra", {})})
        for k, v in rep.get("counters", {}).items():
            cov["counters"][k] = cov["counters"].get(k, 0) + v
        for k, v in rep.get("futex", {}).items():
            cov["futex"][k] = cov["futex"].get(k, 0) + v
        cov["shortfalls"] += ["%s: %s" % (res["name"], s) for s in rep.get("shortfalls", [])]
        cov["notes"] += ["%s: %s" % (res["name"], s) for s in rep.get("notes", [])][:10]
    for c in spec.get("expect_counters", []):
        if cov["counters"].get(c, 0) == 0:
            cov["shortfalls"].append("rare branch / point never observed in this run: " + c)
    cov["sanitizer_variants_run"] = sorted(set(r["variant"] for r in runs))
    cov["known_findings_reproduced"] = sorted(set(k["id"] for _, _, k in known_hits))
    if spec.get("not_decidable"):
        cov["not_decidable_here"] = spec["not_decidable"]
    ev = {"property_id": pid, "tier": tier, "seed": seed, "level": spec.get("level", "exploration"),
          "coverage": cov, "assumptions": spec.get("assumptions", []),
          "wall_s": round(time.time() - t0, 1), "violations": len(violations)}
    if inconclusive:
        ev["inconclusive"] = ["%s: %s" % x for x in inconclusive][:20]
    os.makedirs(os.path.join(VERIF, "evidence"), exist_ok=True)
    tmp = os.path.join(VERIF, "evidence", pid + ".json.tmp")
    json.dump(ev, open(tmp, "w"), indent=1, sort_keys=True)
    os.replace(tmp, os.path.join(VERIF, "evidence", pid + ".json"))
    # ---- verdict
    seen = set()
    for name, v, k in known_hits:
        if k["id"] not in seen:
            seen.add(k["id"])
            print("KNOWN-FINDING: property=%s %s" % (pid, k["what_fails"]), flush=True)
    if violations:
        done = set()
        for name, v, _ in violations:
            if v["key"] in done:
                continue
            done.add(v["key"])
            log("violation in %s: key=%s : %s" % (name, v["key"], v["msg"]))
            print("VIOLATION property=%s replay=%s" % (pid, v["witness"]), flush=True)
        return 1
    if inconclusive:
        for name, i in inconclusive[:10]:
            log("INCONCLUSIVE %s: %s" % (name, i))
        return 2
    if cov["evaluations"] < 1 or cov["distinct_nontrivial"] < 2:
        log("INCONCLUSIVE: monitors observed nothing (evaluations=%d distinct_nontrivial=%d)"
            % (cov["evaluations"], cov["distinct_nontrivial"]))
        return 2
    log("%s %s seed=%d: held on %d evaluations (%d distinct non-trivial) in %.0fs"
        % (pid, tier, seed, cov["evaluations"], cov["distinct_nontrivial"], time.time() - t0))
    return 0


def replay(path):
    w = json.load(open(path))
    pid = w["property"]
    print("witness: property=%s key=%s\nmessage: %s\n%s" % (pid, w.get("key"), w.get("message"),
                                                          w.get("detail", "")[:4000]))
    spec = CHECKS.get(pid)
    if not spec:
        return 2
    runs = [r for r in spec["runs"] if r["harness"] == w["harness"] and r["variant"] == w["variant"]
            and r.get("mode", "") == w.get("mode", "")]
    if not runs:
        return 2
    if not build(w["variant"], [w["harness"]]):
        return 2
    hits = 0
    n = int(os.environ.get("VERIF_REPLAY_TRIES", "5"))
    for i in range(n):
        res = run_one(pid, runs[0], w.get("tier", "quick"), int(w["seed"]), os.path.join(BUILD, "runs", "replay"))
        same = [v for v in res["violations"] if v["key"] == w.get("key")]
        hits += 1 if same else 0
        print("re-run %d/%d: %s" % (i + 1, n, "reproduced" if same else
                                   ("other violation" if res["violations"] else "not reproduced")))
    print("reproduced %d/%d (schedules are not deterministic; the saved history is the witness)" % (hits, n))
    return 1 if hits else 0


def main():
    a = sys.argv[1:]
    if not a or a[0] == "list":
        for k, v in CHECKS.items():
            print(k, [r["harness"] + ":" + r["variant"] for r in v["runs"]])
        return 0
    if a[0] == "build":
        # setup builds what the registered (claimed) checks need; work-in-progress run plans are skipped
        try:
            claimed = set(open(os.path.join(VERIF, "claimed.txt")).read().split())
        except OSError:
            claimed = set(CHECKS)
        reg = {k: v for k, v in CHECKS.items() if k in claimed}
        variants = a[1:] or sorted(set(r["variant"] for c in reg.values() for r in c["runs"]))
        ok = True
        with concurrent.futures.ThreadPoolExecutor(max_workers=2) as ex:
            futs = []
            for v in variants:
                t = sorted(set(r["harness"] for c in reg.values() for r in c["runs"] if r["variant"] == v))
                futs.append(ex.submit(build, v, ["babylon"] + t))
            ok = all(f.result() for f in futs)
        return 0 if ok else 2
    if a[0] == "check":
        pid = a[1]
        tier = os.environ.get("VERIF_TIER", "quick")
        seed = int(os.environ.get("VERIF_SEED", "1"))
        jobs = None
        i = 2
        while i < len(a):
            if a[i] == "--tier":
                tier = a[i + 1]; i += 2
            elif a[i] == "--seed":
                seed = int(a[i + 1]); i += 2
            elif a[i] == "--jobs":
                jobs = int(a[i + 1]); i += 2
            else:
                i += 1
        return check(pid, tier, seed, jobs)
    if a[0] == "replay":
        return replay(a[1])
    print(__doc__)
    return 2


if __name__ == "__main__":
    sys.exit(main())
